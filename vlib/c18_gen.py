"""c18_gen - route / vpls / flow definition texts with every value at and beyond its bound (property C18).

A textgen route record is drawn first, then (two times out of three) ONE mutation is applied to ONE field:
a value at its bound (still fits the wire format), a value beyond it, a malformed token, a dropped / duplicated /
unknown / misplaced token.  The case carries the rendered clauses (keyword, text), whether the definition is
still expressible on the wire (`fits`: True / False / None when the text is no longer in the grammar) and, when
it fits, the record from which vlib.textgen derives the expected wire values.  Nothing here imports exabgp.
"""

from __future__ import annotations

import copy
import ipaddress

from hypothesis import strategies as st

from vlib import textgen

ATTR_KEYWORD = {
    'origin': 'origin',
    'as_path': 'as-path',
    'med': 'med',
    'local_pref': 'local-preference',
    'atomic': 'atomic-aggregate',
    'aggregator': 'aggregator',
    'community': 'community',
    'large_community': 'large-community',
    'ext_community': 'extended-community',
    'originator': 'originator-id',
    'cluster_list': 'cluster-list',
    'aigp': 'aigp',
    'prefix_sid': 'bgp-prefix-sid',
    'generic': 'attribute',
}
ATTR_ORDER = list(ATTR_KEYWORD)

BAD_V4 = ['1.2.3.999', '1.2.3', '1.2.3.4.5', 'a.b.c.d', '1..3.4', '256.1.1.1', '1.2.3.-4']
BAD_V6 = ['2001:db8::zz', '::1::2', '2001:db8', '12345::1']

U16 = (0, 1, 65534, 65535, 65536)
U20 = (0, 1, 2**20 - 2, 2**20 - 1, 2**20)
U32 = (0, 1, 65534, 65535, 65536, 2**32 - 2, 2**32 - 1, 2**32)
U64 = (0, 1, 2**64 - 2, 2**64 - 1, 2**64)


# ---------------------------------------------------------------------------- rendering


def rd_value_text(rd: list) -> str:
    return rd[1] if rd[0] == 'raw' else textgen.rd_text(rd)


def path_id_text(rec: dict) -> str:
    form = rec.get('path_id_form', 'int')
    if form == 'raw':
        return rec['path_id_text']
    if form == 'ip':
        return str(ipaddress.IPv4Address(rec['path_id']))
    return str(rec['path_id'])


def clauses(rec: dict) -> list:
    """[[keyword, text]] in the order an operator writes them; the first one holds the prefix"""
    form = rec['form']
    out = []
    if form == 'route':
        out.append(['prefix', f'route {rec["prefix"]}'])
    elif form == 'family':
        out.append(['prefix', f'{textgen.FAMILY_TEXT[(rec["afi"], rec["safi"])]} {rec["prefix"]}'])
    else:
        out.append(['head', 'attributes'])
    if 'rd' in rec:
        out.append(['rd', 'rd ' + rd_value_text(rec['rd'])])
    if 'labels' in rec:
        labs = rec['labels']
        out.append(['label', 'label ' + (str(labs[0]) if len(labs) == 1 else '[ ' + ' '.join(str(x) for x in labs) + ' ]')])
    if 'path_id' in rec:
        out.append(['path-information', 'path-information ' + path_id_text(rec)])
    if 'nexthop' in rec:
        out.append(['next-hop', f'next-hop {rec["nexthop"]}'])
    order = rec.get('attr_order') or ATTR_ORDER
    for key in order:
        if key in ('watchdog', 'name'):
            if key in rec:
                out.append([key, f'{key} {rec[key]}'])
            continue
        if key in rec['attrs']:
            out.append([ATTR_KEYWORD[key], textgen.attributes_text({key: rec['attrs'][key]})])
    if form == 'attributes':
        out.append(['nlri', 'nlri ' + ' '.join([rec['prefix']] + rec.get('more_prefixes', []))])
    return out


def text_of(cl: list) -> str:
    return ' '.join(c[1] for c in cl if c[1])


# ---------------------------------------------------------------------------- which values sit on a bound


def _near(value: int, bounds: tuple) -> bool:
    return any(abs(value - b) <= 1 for b in bounds)


def near_bound(rec: dict) -> bool:
    a = rec['attrs']
    mask = int(rec['prefix'].split('/')[1]) if rec['prefix'].split('/')[-1].isdigit() else -9
    top = 32 if rec['afi'] == 1 else 128
    if _near(mask, (0, top)):
        return True
    if any(_near(x, (0, 2**20 - 1)) for x in rec.get('labels', [])):
        return True
    if 'path_id' in rec and isinstance(rec['path_id'], int) and _near(rec['path_id'], (0, 2**32 - 1)):
        return True
    if 'rd' in rec and rec['rd'][0] != 'raw':
        if any(isinstance(x, int) and _near(x, (0, 65535, 2**32 - 1)) for x in rec['rd'][1:]):
            return True
    for key in ('med', 'local_pref'):
        if key in a and _near(a[key], (0, 2**32 - 1)):
            return True
    if 'aigp' in a and _near(a['aigp'], (0, 2**64 - 1)):
        return True
    if 'prefix_sid' in a and isinstance(a['prefix_sid'][0], int):
        if _near(a['prefix_sid'][0], (0, 2**32 - 1)) or any(_near(x, (0, 2**24 - 1)) for t in a['prefix_sid'][1] for x in t):
            return True
    asns = [x for _, seg in a.get('as_path', []) for x in seg]
    if 'aggregator' in a:
        asns.append(a['aggregator'][0])
    if any(_near(x, (0, 65535, 2**32 - 1)) for x in asns):
        return True
    for _, v in a.get('community', []):
        if isinstance(v, int) and (_near(v >> 16, (0, 65535)) or _near(v & 0xFFFF, (0, 65535))):
            return True
    for _, parts in a.get('large_community', []):
        if any(_near(x, (0, 2**32 - 1)) for x in parts):
            return True
    return False


def nlri_bits(rec: dict) -> int:
    masks = [p.split('/')[-1] for p in [rec['prefix']] + rec.get('more_prefixes', [])]
    return 24 * len(rec.get('labels', [])) + (64 if 'rd' in rec else 0) + max(int(m) if m.isdigit() else 0 for m in masks)


# ---------------------------------------------------------------------------- mutations of one value


def _ensure_attr(draw, rec: dict, key: str) -> None:
    a = rec['attrs']
    if key in a:
        return
    if key == 'as_path':
        a[key] = [[2, [65000, 65001]]]
    elif key == 'aggregator':
        a[key] = [65000, '10.0.0.1']
    elif key == 'community':
        a[key] = [['100:100', (100 << 16) | 100]]
    elif key == 'large_community':
        a[key] = [['1:2:3', [1, 2, 3]]]
    elif key == 'ext_community':
        a[key] = [['target:100:100', '0002006400000064']]
    elif key == 'cluster_list':
        a[key] = ['10.0.0.9']
    elif key == 'generic':
        a[key] = [0x99, 0xC0, '0102']
    order = rec.get('attr_order')
    if order is not None and key not in order:
        order.append(key)


def _dedupe(items: list, keyf) -> list:
    seen, out = set(), []
    for it in items:
        k = keyf(it)
        if k not in seen:
            seen.add(k)
            out.append(it)
    return out


def _replace_member(draw, rec: dict, key: str, member: list, keyf) -> None:
    _ensure_attr(draw, rec, key)
    lst = rec['attrs'][key]
    lst[draw(st.integers(0, len(lst) - 1))] = member
    rec['attrs'][key] = _dedupe(lst, keyf)


def _ext(head: str, kind: str, a, n) -> list:
    """[text, 8 octet hex or None] of `target:` / `origin:` communities"""
    sub = 2 if head == 'target' else 3
    text = f'{head}:{a}:{n}'
    try:
        if kind == 'as2':
            raw = bytes([0, sub]) + int(a).to_bytes(2, 'big') + int(n).to_bytes(4, 'big')
        elif kind == 'as4':
            raw = bytes([2, sub]) + int(a).to_bytes(4, 'big') + int(n).to_bytes(2, 'big')
        else:
            raw = bytes([1, sub]) + ipaddress.IPv4Address(a).packed + int(n).to_bytes(2, 'big')
    except (OverflowError, ValueError):
        return [text, None]
    return [text, raw.hex()]


def _m_as_path(draw, rec, over):
    _ensure_attr(draw, rec, 'as_path')
    segs = rec['attrs']['as_path']
    seg = segs[draw(st.integers(0, len(segs) - 1))][1]
    seg[draw(st.integers(0, len(seg) - 1))] = 2**32 if over else draw(st.sampled_from([2**32 - 1, 65536, 65535]))
    return 'as-path', 'asn'


def _m_aggregator_asn(draw, rec, over):
    _ensure_attr(draw, rec, 'aggregator')
    rec['attrs']['aggregator'][0] = 2**32 if over else draw(st.sampled_from([2**32 - 1, 65536, 65535]))
    return 'aggregator', 'asn'


def _m_label_single(draw, rec, over):
    # both spellings (`label N` and `label [ N M ]`) are separate branches of the parser
    rec['labels'] = [2**20 if over else 2**20 - 1]
    return 'label', 'value'


def _m_label_stack(draw, rec, over):
    labs = rec['labels']
    if len(labs) == 1:
        labs.append(draw(st.sampled_from([0, 16, 1000])))
    labs[draw(st.integers(0, len(labs) - 1))] = 2**20 if over else 2**20 - 1
    return 'label', 'value-in-stack'


def _m_med(draw, rec, over):
    rec['attrs']['med'] = 2**32 if over else 2**32 - 1
    _order_add(rec, 'med')
    return 'med', 'value'


def _m_local_pref(draw, rec, over):
    rec['attrs']['local_pref'] = 2**32 if over else 2**32 - 1
    _order_add(rec, 'local_pref')
    return 'local-preference', 'value'


def _order_add(rec, key):
    order = rec.get('attr_order')
    if order is not None and key not in order:
        order.append(key)


def _m_community(draw, rec, over):
    shape = draw(st.sampled_from(['pair-high', 'pair-low', 'int', 'hex', 'pair-high-2^32', 'pair-low-2^32']))
    other = draw(st.sampled_from([0, 1, 65535, 64512]))
    if shape == 'pair-high':
        member = [f'65536:{other}', None] if over else [f'65535:{other}', (65535 << 16) | other]
    elif shape == 'pair-low':
        member = [f'{other}:65536', None] if over else [f'{other}:65535', (other << 16) | 65535]
    elif shape == 'pair-high-2^32':
        member = [f'{2**32}:{other}', None] if over else [f'65535:{other}', (65535 << 16) | other]
    elif shape == 'pair-low-2^32':
        member = [f'{other}:{2**32}', None] if over else [f'{other}:65535', (other << 16) | 65535]
    elif shape == 'int':
        member = ['4294967296', None] if over else ['4294967295', 2**32 - 1]
    else:
        member = ['0x100000000', None] if over else ['0xffffffff', 2**32 - 1]
    _replace_member(draw, rec, 'community', member, lambda c: c[1] if c[1] is not None else c[0])
    return 'community', shape


def _m_large_community(draw, rec, over):
    parts = [draw(st.sampled_from([0, 1, 65536, 2**32 - 1])) for _ in range(3)]
    parts[draw(st.integers(0, 2))] = 2**32 if over else 2**32 - 1
    member = [':'.join(str(p) for p in parts), parts]
    _replace_member(draw, rec, 'large_community', member, lambda c: tuple(c[1]))
    return 'large-community', 'part'


def _m_ext_community(draw, rec, over):
    head = draw(st.sampled_from(['target', 'origin']))
    shape = draw(st.sampled_from(['as2-number', 'as4-number', 'asn', 'ip-number', 'hex-length']))
    if shape == 'as2-number':
        member = _ext(head, 'as2', draw(st.sampled_from([0, 1, 65535])), 2**32 if over else 2**32 - 1)
    elif shape == 'as4-number':
        member = _ext(head, 'as4', draw(st.sampled_from([65536, 2**32 - 1])), 65536 if over else 65535)
    elif shape == 'asn':
        member = _ext(head, 'as4', 2**32 if over else 2**32 - 1, draw(st.sampled_from([0, 1, 65535])))
    elif shape == 'ip-number':
        member = _ext(head, 'ip', draw(st.sampled_from(['1.2.3.4', '255.255.255.255'])), 65536 if over else 65535)
    else:
        raw = draw(st.binary(min_size=9, max_size=9))
        kind = draw(st.sampled_from(['0002', '0003', '0102', '0103', '0202', '0203', '8006', '8008', '800a', '4004', '0300', None, None]))
        raw = (bytes.fromhex(kind) if kind else bytes([raw[0] & 0x3F, raw[1]])) + raw[2:]
        n = draw(st.sampled_from([7, 9, 2, 1])) if over else 8
        member = ['0x' + raw[:n].hex(), raw[:n].hex() if n == 8 else None]
    _replace_member(draw, rec, 'ext_community', member, lambda c: c[1] if c[1] is not None else c[0])
    return 'extended-community', shape


def _m_path_information(draw, rec, over):
    shape = draw(st.sampled_from(['int', 'dotted']))
    if shape == 'int':
        rec['path_id'] = 2**32 if over else 2**32 - 1
        rec['path_id_form'] = 'int'
    elif over:
        rec['path_id'] = None
        rec['path_id_form'] = 'raw'
        rec['path_id_text'] = draw(st.sampled_from(['1.2.3.256', '256.0.0.0', '0.0.256.1']))
    else:
        rec['path_id'] = 2**32 - 1
        rec['path_id_form'] = 'ip'
    return 'path-information', shape


def _m_aigp(draw, rec, over):
    rec['attrs']['aigp'] = 2**64 if over else 2**64 - 1
    _order_add(rec, 'aigp')
    return 'aigp', 'value'


def _m_prefix_sid(draw, rec, over):
    """label index at / beyond 2^32 - 1, an SRGB base or range at / beyond 2^24 - 1 (RFC 8669), in any tuple"""
    which = draw(st.sampled_from(['index', 'base', 'range', 'range-second-tuple']))
    index, srgb = 7, [[16000, 8000]]
    if which == 'index':
        index = 2**32 if over else 2**32 - 1
        srgb = draw(st.sampled_from([[], srgb]))
    else:
        if which == 'range-second-tuple':
            srgb = [[16000, 8000], [800000, 100]]
        value = draw(st.sampled_from([2**24, 2**24 + 100, 2**32 - 1])) if over else 2**24 - 1
        srgb[-1][0 if which == 'base' else 1] = value
    rec['attrs']['prefix_sid'] = [index, srgb]
    _order_add(rec, 'prefix_sid')
    return 'bgp-prefix-sid', which


def _m_mask(draw, rec, over):
    top = 32 if rec['afi'] == 1 else 128
    address = rec['prefix'].split('/')[0]
    rec['prefix'] = f'{address}/{top + 1 if over else top}'
    return 'prefix', 'mask'


def _m_rd(draw, rec, over):
    shape = draw(st.sampled_from(['as2-number', 'as4-number', 'asn', 'ip-number']))
    if shape == 'as2-number':
        a = draw(st.sampled_from([0, 1, 65535]))
        rec['rd'] = ['raw', f'{a}:{2**32}'] if over else ['asn2', a, 2**32 - 1]
    elif shape == 'as4-number':
        a = draw(st.sampled_from([65536, 2**32 - 1]))
        rec['rd'] = ['raw', f'{a}:65536'] if over else ['asn4', a, 65535]
    elif shape == 'asn':
        rec['rd'] = ['raw', f'{2**32}:1'] if over else ['asn4', 2**32 - 1, 1]
    else:
        rec['rd'] = ['raw', '1.2.3.4:65536'] if over else ['ip', '1.2.3.4', 65535]
    return 'rd', shape


def _m_generic(draw, rec, over):
    _ensure_attr(draw, rec, 'generic')
    shape = draw(st.sampled_from(['code', 'flags']))
    g = rec['attrs']['generic']
    if shape == 'code':
        g[0] = 0x100 if over else 0xFF
    else:
        g[1] = 0x1C0 if over else 0xE0
    return 'attribute', shape


VALUE_MUTATIONS = {
    'as-path': (_m_as_path, lambda r: True),
    'aggregator-asn': (_m_aggregator_asn, lambda r: True),
    'label': (_m_label_single, lambda r: 'labels' in r),
    'label-stack': (_m_label_stack, lambda r: 'labels' in r),
    'med': (_m_med, lambda r: True),
    'local-preference': (_m_local_pref, lambda r: True),
    'community': (_m_community, lambda r: True),
    'large-community': (_m_large_community, lambda r: True),
    'extended-community': (_m_ext_community, lambda r: True),
    'path-information': (_m_path_information, lambda r: r['safi'] != 2),
    'aigp': (_m_aigp, lambda r: True),
    'bgp-prefix-sid': (_m_prefix_sid, lambda r: r['form'] != 'family'),
    'mask': (_m_mask, lambda r: True),
    'rd': (_m_rd, lambda r: 'rd' in r),
    'attribute': (_m_generic, lambda r: True),
}


def _malformed(draw, rec) -> tuple:
    """(keyword, what): one token the grammar has no meaning for"""
    choices = ['next-hop', 'originator-id', 'cluster-list', 'aggregator-address', 'path-information', 'attribute-data', 'prefix', 'med', 'local-preference', 'origin', 'originator-id-ipv6', 'cluster-list-ipv6', 'aggregator-address-ipv6', 'aigp', 'as-path-token']
    if rec['form'] != 'family':
        choices += ['bgp-prefix-sid']
    if 'rd' in rec:
        choices += ['rd', 'rd']
    if 'labels' in rec:
        choices += ['label']
    if rec['form'] == 'family':
        choices += ['prefix-other-afi', 'prefix-other-afi']
    what = draw(st.sampled_from(choices))
    a = rec['attrs']
    if what == 'next-hop':
        rec['nexthop'] = draw(st.sampled_from(BAD_V4 if rec['afi'] == 1 else BAD_V6 + BAD_V4[:2]))
        return 'next-hop', 'malformed-address'
    if what == 'originator-id':
        a['originator'] = draw(st.sampled_from(BAD_V4))
        _order_add(rec, 'originator')
        return 'originator-id', 'malformed-address'
    if what == 'originator-id-ipv6':
        a['originator'] = '2001:db8::1'
        _order_add(rec, 'originator')
        return 'originator-id', 'ipv6-address'
    if what == 'cluster-list':
        _ensure_attr(draw, rec, 'cluster_list')
        lst = a['cluster_list']
        lst[draw(st.integers(0, len(lst) - 1))] = draw(st.sampled_from(BAD_V4))
        return 'cluster-list', 'malformed-address'
    if what == 'cluster-list-ipv6':
        # an address of the other family where the wire format holds four octets
        _ensure_attr(draw, rec, 'cluster_list')
        lst = a['cluster_list']
        lst[draw(st.integers(0, len(lst) - 1))] = draw(st.sampled_from(['2001:db8::1', '::1', '::ffff:10.0.0.1']))
        return 'cluster-list', 'ipv6-address'
    if what == 'aggregator-address-ipv6':
        _ensure_attr(draw, rec, 'aggregator')
        a['aggregator'][1] = draw(st.sampled_from(['2001:db8::1', '::1']))
        return 'aggregator', 'ipv6-address'
    if what == 'aggregator-address':
        _ensure_attr(draw, rec, 'aggregator')
        a['aggregator'][1] = draw(st.sampled_from(BAD_V4))
        return 'aggregator', 'malformed-address'
    if what == 'path-information':
        rec['path_id'], rec['path_id_form'] = None, 'raw'
        rec['path_id_text'] = draw(st.sampled_from(['1.2.3', 'x', '-1', '1.2.3.4.5', '0x10']))
        return 'path-information', 'malformed'
    if what == 'attribute-data':
        _ensure_attr(draw, rec, 'generic')
        a['generic'][2] = draw(st.sampled_from(['1', 'abc', 'zz']))
        return 'attribute', 'malformed-data'
    if what == 'prefix':
        bad = ['300.0.0.0/8', '10.0.0/24', '10.0.0.0/x', '10.0.0.0/-1', '10.0.0.0/24/1', '/24'] if rec['afi'] == 1 else ['2001:db8::zz/32', '2001:db8::/x', '2001:db8::/-1', ':::/0']
        rec['prefix'] = draw(st.sampled_from(bad))
        return 'prefix', 'malformed'
    if what == 'prefix-other-afi':
        rec['prefix'] = '2001:db8::/32' if rec['afi'] == 1 else '10.0.0.0/24'
        return 'prefix', 'other-afi'
    if what == 'bgp-prefix-sid':
        a['prefix_sid'] = draw(st.sampled_from([['-1', []], ['x', []], [7, [['-1', 1]]], [7, [[1, '-5']]], [7, [['x', 1]]]]))
        _order_add(rec, 'prefix_sid')
        return 'bgp-prefix-sid', 'malformed'
    if what in ('med', 'local-preference', 'aigp'):
        key = {'med': 'med', 'local-preference': 'local_pref', 'aigp': 'aigp'}[what]
        a[key] = draw(st.sampled_from(['-1', 'x', '1.5', '0x', '1e3']))
        _order_add(rec, key)
        return what, 'malformed'
    if what == 'origin':
        a['origin'] = draw(st.sampled_from(['bgp', '0', 'IGP!']))
        _order_add(rec, 'origin')
        return 'origin', 'malformed'
    if what == 'as-path-token':
        _ensure_attr(draw, rec, 'as_path')
        seg = a['as_path'][0][1]
        seg[draw(st.integers(0, len(seg) - 1))] = draw(st.sampled_from(['x', '-1', '1.2.3', '65000L', '0x10']))
        return 'as-path', 'malformed-asn'
    if what == 'rd':
        rec['rd'] = ['raw', draw(st.sampled_from(['12', '1.2.3.256:1', '1.2.3:1', ':1', '1:', '1:x', 'x:1', '1:2:3', '1.2.3.4:-1']))]
        return 'rd', 'malformed'
    labs = rec['labels']
    labs[draw(st.integers(0, len(labs) - 1))] = draw(st.sampled_from(['x', '-1', '1.5', '0x10']))
    return 'label', 'malformed'


def _bulk(draw, rec) -> tuple:
    """(keyword, what, fits, huge): long lists, up to attribute sets which leave no room for a prefix in 4096 octets"""
    what = draw(st.sampled_from(['community', 'community', 'large-community', 'as-path', 'extended-community', 'huge', 'huge', 'cluster-list']))
    a = rec['attrs']
    if what == 'huge':
        how = draw(st.sampled_from(['community', 'large-community', 'attribute', 'as-path', 'extended-community']))
        if how == 'community':
            n = 1030
            a['community'] = [[f'{64000 + (i >> 16)}:{i & 0xFFFF}', ((64000 + (i >> 16)) << 16) | (i & 0xFFFF)] for i in range(n)]
        elif how == 'large-community':
            a['large_community'] = [[f'{i}:{i}:1', [i, i, 1]] for i in range(345)]
        elif how == 'extended-community':
            a['ext_community'] = [_ext('target', 'as2', 100, i) for i in range(515)]
        elif how == 'attribute':
            a['generic'] = [0x99, 0xC0, '5a' * 4100]
        else:
            a['as_path'] = [[2, [64000 + (i % 1000) for i in range(250)]] for _ in range(5)]
            a['as_path'] = [[2, [x for _, seg in a['as_path'] for x in seg]]]
        key = {'community': 'community', 'large-community': 'large_community', 'extended-community': 'ext_community', 'attribute': 'generic', 'as-path': 'as_path'}[how]
        _order_add(rec, key)
        return how, 'huge', True, True
    if what == 'community':
        n = draw(st.sampled_from([0, 63, 64, 65, 255, 256, 300]))
        a['community'] = [[f'{64000}:{i}', (64000 << 16) | i] for i in range(n)]
        _order_add(rec, 'community')
        return 'community', f'count-{n}', (True if n else None), False
    if what == 'large-community':
        n = draw(st.sampled_from([21, 22, 300]))
        a['large_community'] = [[f'{i}:2:3', [i, 2, 3]] for i in range(n)]
        _order_add(rec, 'large_community')
        return 'large-community', f'count-{n}', True, False
    if what == 'extended-community':
        n = draw(st.sampled_from([31, 32, 33, 300]))
        a['ext_community'] = [_ext('target', 'as2', 100, i) for i in range(n)]
        _order_add(rec, 'ext_community')
        return 'extended-community', f'count-{n}', True, False
    if what == 'cluster-list':
        n = draw(st.sampled_from([63, 64, 65, 300]))
        a['cluster_list'] = [str(ipaddress.IPv4Address(0x0A000000 + i)) for i in range(n)]
        _order_add(rec, 'cluster_list')
        return 'cluster-list', f'count-{n}', True, False
    n = draw(st.sampled_from([63, 64, 127, 128, 255, 256, 300]))
    a['as_path'] = [[2, [64000 + i for i in range(n)]]]
    _order_add(rec, 'as_path')
    return 'as-path', f'count-{n}', True, False


# ---------------------------------------------------------------------------- mutations of the token sequence


def _grammar(draw, cl: list, rec: dict, in_file: bool) -> tuple:
    """(clauses, keyword, kind, fits)"""
    kind = draw(st.sampled_from(['dropped-value', 'dropped-value', 'duplicate-clause', 'unknown-keyword', 'unbalanced', 'extra-token', 'dropped-prefix', 'dropped-clause', 'dropped-clause', 'misplaced-clause']))
    body = [i for i, c in enumerate(cl) if c[0] not in ('prefix', 'head', 'nlri')]
    cl = [list(c) for c in cl]
    if kind == 'dropped-value':
        valued = [i for i in body if ' ' in cl[i][1]]
        if valued:
            i = draw(st.sampled_from(valued))
            cl[i][1] = cl[i][1].split(' ', 1)[0]
            return cl, cl[i][0], kind, None
        kind = 'unknown-keyword'
    if kind == 'duplicate-clause' and body:
        i = draw(st.sampled_from(body))
        cl.insert(len(cl) - (1 if cl[-1][0] == 'nlri' else 0), list(cl[i]))
        return cl, cl[i][0], kind, None
    if kind == 'unbalanced':
        bracketed = [i for i in body if any(b in cl[i][1].split(' ') for b in '[]()')]
        if bracketed:
            i = draw(st.sampled_from(bracketed))
            words = cl[i][1].split(' ')
            where = [j for j, w in enumerate(words) if w in '[]()']
            j = draw(st.sampled_from(where))
            del words[j]
            cl[i][1] = ' '.join(words)
            return cl, cl[i][0], kind, None
        kind = 'extra-token'
    if kind == 'extra-token' and body:
        i = draw(st.sampled_from(body))
        cl[i][1] += ' ' + draw(st.sampled_from(['x', '1', ']', ')', '[', '65000:1', '10.0.0.1']))
        return cl, cl[i][0], kind, None
    if kind == 'dropped-prefix':
        head = cl[0]
        if head[0] == 'prefix':
            head[1] = head[1].rsplit(' ', 1)[0]
        else:
            cl[-1][1] = 'nlri'
            return cl, 'nlri', kind, None
        return cl, 'prefix', kind, None
    if kind == 'dropped-clause':
        # a definition which lacks what the family cannot be announced without
        needed = [i for i in body if cl[i][0] == 'next-hop' or (cl[i][0] in ('rd', 'label') and rec['form'] == 'family')]
        if needed:
            i = draw(st.sampled_from(needed))
            kw = cl[i][0]
            del cl[i]
            return cl, kw, kind, False
        kind = 'unknown-keyword'
    if kind == 'misplaced-clause' and len(body) >= 1 and cl[0][0] == 'prefix':
        # an attribute before the prefix
        i = draw(st.sampled_from(body))
        moved = cl.pop(i)
        words = cl[0][1].rsplit(' ', 1)
        cl[0][1] = words[0]
        cl.insert(1, ['prefix-value', words[1]])
        cl.insert(1, moved)
        return cl, moved[0], kind, None
    words = ['bogus 1', 'metric 5', 'endpoint 5', 'next-hop-self', 'communities 1:1', 'Med 5', 'as_path [ 1 ]', 'route 10.9.0.0/24']
    # a stray ; { } in an API line; in a file it would change the structure of the file, not the definition
    word = draw(st.sampled_from(words + ([] if in_file else ['{', '}', ';'])))
    at = draw(st.integers(1, len(cl) - (1 if cl[-1][0] == 'nlri' else 0)))
    cl.insert(at, ['unknown-keyword', word])
    return cl, 'unknown-keyword', 'unknown-keyword', None


# ---------------------------------------------------------------------------- the route cases

ROUTE_ENTRIES = {
    'route': ['parse_route_text', 'parse_route_text', 'api', 'api', 'api-legacy', 'config-flat', 'config-block'],
    'family': ['partial', 'partial', 'api', 'api', 'api-legacy', 'config-flat'],
    'attributes': ['api', 'api-legacy'],
}


@st.composite
def route_cases(draw) -> dict:
    families = [(1, 1), (1, 1), (2, 1), (1, 4), (1, 128), (2, 4), (2, 128), (1, 2)]
    rec = draw(textgen.routes(families=families, family_form_subset=False))
    if rec['afi'] == 1 and rec['nexthop'] != 'self' and ':' in rec['nexthop']:
        rec['nexthop'] = '10.9.8.7'  # an IPv6 next hop for IPv4 NLRI needs RFC 8950, which is C01's subject
    shape = draw(st.integers(0, 11))
    if shape == 0 and rec['safi'] == 2:
        rec['form'] = 'family'
    if shape in (1, 2):
        rec['form'] = 'attributes'
        if draw(st.booleans()):
            more = draw(textgen.prefix4(multicast=(rec['safi'] == 2)) if rec['afi'] == 1 else textgen.prefix6())
            if more != rec['prefix']:
                rec['more_prefixes'] = [more]
    if rec['form'] == 'family':
        rec['attrs'].pop('prefix_sid', None)  # the `<afi> <safi>` form lists its keywords: bgp-prefix-sid is not one of them
    if rec['safi'] == 2:
        rec.pop('path_id', None)
        rec.pop('path_id_form', None)
    if draw(st.integers(0, 5)) == 0:
        rec['watchdog'] = draw(st.sampled_from(['dog', 'w1', 'watch-dog_2']))
    if draw(st.integers(0, 5)) == 0:
        rec['name'] = draw(st.sampled_from(['n1', 'a-name', 'x.y']))
    order = [k for k in ATTR_ORDER if k in rec['attrs']] + [k for k in ('watchdog', 'name') if k in rec]
    if draw(st.booleans()):
        order = list(draw(st.permutations(order)))
    rec['attr_order'] = order
    entry = draw(st.sampled_from(ROUTE_ENTRIES[rec['form']]))

    mutation = None
    fits: bool | None = True
    huge = False
    cl = None
    roll = draw(st.integers(0, 11))
    if roll >= 4:
        group = draw(st.sampled_from(['value', 'value', 'value', 'value', 'malformed', 'malformed', 'bulk', 'grammar', 'grammar']))
        if group == 'value':
            names = sorted(n for n, (_, ok) in VALUE_MUTATIONS.items() if ok(rec))
            name = draw(st.sampled_from(names))
            over = draw(st.booleans())
            kw, what = VALUE_MUTATIONS[name][0](draw, rec, over)
            fits = not over
            mutation = {'kind': 'over-bound' if over else 'at-bound', 'field': kw, 'what': what}
        elif group == 'malformed':
            kw, what = _malformed(draw, rec)
            fits = False
            mutation = {'kind': 'malformed', 'field': kw, 'what': what}
        elif group == 'bulk':
            kw, what, fits, huge = _bulk(draw, rec)
            mutation = {'kind': 'bulk', 'field': kw, 'what': what}
        else:
            cl, kw, kind, fits = _grammar(draw, clauses(rec), rec, entry.startswith('config'))
            mutation = {'kind': kind, 'field': kw, 'what': kind}
    if cl is None:
        cl = clauses(rec)
    # the NLRI length octet counts bits: labels + rd + mask above 255 cannot be written on the wire (RFC 8277 2.2, RFC 4364 4.3.4)
    if fits is True and nlri_bits(rec) > 255:
        fits = False
        mutation = {'kind': 'over-bound', 'field': 'label', 'what': 'nlri-length-over-255-bits'}
    near = mutation is not None or near_bound(rec)
    return {
        'form': rec['form'],
        'entry': entry,
        'afi': rec['afi'],
        'safi': rec['safi'],
        'clauses': cl,
        'fits': fits,
        'huge': huge,
        'mutation': mutation,
        'record': rec if fits is True else None,
        'near': near,
        'comments': draw(st.sampled_from([0, 0, 2])),
    }


def route_case(text_clauses: list, form: str = 'route', entry: str = 'parse_route_text', afi: int = 1, safi: int = 1, fits=None, mutation: dict | None = None, record: dict | None = None, huge: bool = False) -> dict:
    """an enumerated case (the minimal text of a diagnosed finding)"""
    return {
        'form': form,
        'entry': entry,
        'afi': afi,
        'safi': safi,
        'clauses': [list(c) for c in text_clauses],
        'fits': fits,
        'huge': huge,
        'mutation': mutation,
        'record': copy.deepcopy(record),
        'near': True,
        'comments': 0,
    }


# ---------------------------------------------------------------------------- vpls

VPLS_FIELDS = ['endpoint', 'base', 'offset', 'size']
VPLS_LIMIT = {'endpoint': 65535, 'offset': 65535, 'size': 65535, 'base': 2**20 - 1}


@st.composite
def vpls_cases(draw) -> dict:
    rec: dict = {}
    for f in VPLS_FIELDS:
        pool = [0, 1, 5, 8, 100, 65534, 65535]
        rec[f] = draw(st.sampled_from(pool + ([10702, 2**20 - 9, 2**20 - 1] if f == 'base' else [])))
    rec['rd'] = draw(textgen.route_distinguisher())
    rec['nexthop'] = draw(textgen.ipv4_addr)
    attrs = draw(textgen.attributes(rich=False))
    for k in ('large_community', 'aigp', 'generic', 'atomic', 'aggregator', 'prefix_sid'):
        attrs.pop(k, None)
    if draw(st.booleans()):
        attrs.setdefault('ext_community', []).append(['l2info:19:0:1500:111', '800a130005dc006f'])
    rec['attrs'] = attrs
    fits: bool | None = True
    mutation = None
    roll = draw(st.integers(0, 9))
    if roll >= 3:
        kind = draw(st.sampled_from(['over-bound', 'over-bound', 'at-bound', 'malformed', 'dropped-clause', 'dropped-value', 'unknown-keyword', 'l2info']))
        f = draw(st.sampled_from(VPLS_FIELDS))
        if kind == 'over-bound':
            rec[f] = draw(st.sampled_from([VPLS_LIMIT[f] + 1, 2**32, 2**16 if f != 'base' else 2**24]))
            fits = False
        elif kind == 'at-bound':
            rec[f] = VPLS_LIMIT[f]
            if f == 'base':
                rec['size'] = 0
            elif f == 'size':
                rec['base'] = 0
        elif kind == 'malformed':
            f = draw(st.sampled_from(VPLS_FIELDS + ['rd', 'next-hop']))
            if f == 'rd':
                rec['rd'] = ['raw', draw(st.sampled_from(['12', '1.2.3.256:1', '65536:65536', '1:x', '4294967296:1']))]
            elif f == 'next-hop':
                rec['nexthop'] = draw(st.sampled_from(BAD_V4))
            else:
                rec[f] = draw(st.sampled_from(['x', '-1', '1.5', '0x10']))
            fits = False
        elif kind == 'dropped-clause':
            f = draw(st.sampled_from(VPLS_FIELDS + ['rd', 'next-hop']))
            rec['drop'] = f
            fits = False
        elif kind == 'dropped-value':
            f = draw(st.sampled_from(VPLS_FIELDS + ['rd', 'next-hop']))
            rec['novalue'] = f
            fits = None
        elif kind == 'unknown-keyword':
            f = 'unknown-keyword'
            rec['unknown'] = draw(st.sampled_from(['bogus 1', 'label 5', 'mtu 1500']))
            fits = None
        else:
            f = 'extended-community'
            text = draw(st.sampled_from(['l2info:256:0:1500:111', 'l2info:19:256:1500:111', 'l2info:19:0:65536:111', 'l2info:19:0:1500:65536', 'l2info:19:0:1500', 'l2info:255:255:65535:65535']))
            rec['attrs']['ext_community'] = [[text, None]]
            fits = text.endswith('65535:65535')
        mutation = {'kind': kind, 'field': f, 'what': {'over-bound': 'value', 'at-bound': 'value', 'l2info': 'l2info-field'}.get(kind, kind)}
    # base + size must stay inside the 20 bit label space (RFC 4761 3.2.1): otherwise the block is not expressible
    if fits is True and isinstance(rec['base'], int) and isinstance(rec['size'], int) and rec['base'] + rec['size'] > 2**20 - 1:
        fits = False
        mutation = mutation or {'kind': 'over-bound', 'field': 'base', 'what': 'base+size'}
    cl = vpls_clauses(rec)
    if draw(st.booleans()):
        head, rest = cl[0], list(draw(st.permutations(cl[1:])))
        cl = [head] + rest
    near = mutation is not None or any(isinstance(rec[f], int) and _near(rec[f], (0, 65535, 2**20 - 1)) for f in VPLS_FIELDS)
    return {
        'entry': draw(st.sampled_from(['api', 'api', 'api-legacy', 'config-flat', 'config-block', 'config-announce'])),
        'clauses': cl,
        'fits': fits,
        'mutation': mutation,
        'record': {k: rec[k] for k in VPLS_FIELDS + ['rd']} if fits is True else None,
        'near': near,
    }


def vpls_clauses(rec: dict) -> list:
    cl = [['head', 'vpls']]
    fields = [('rd', 'rd ' + rd_value_text(rec['rd']))] + [(f, f'{f} {rec[f]}') for f in VPLS_FIELDS] + [('next-hop', f'next-hop {rec["nexthop"]}')]
    for kw, text in fields:
        if rec.get('drop') == kw:
            continue
        if rec.get('novalue') == kw:
            text = kw
        cl.append([kw, text])
    for key in ATTR_ORDER:
        if key in rec['attrs']:
            cl.append([ATTR_KEYWORD[key], textgen.attributes_text({key: rec['attrs'][key]})])
    if 'unknown' in rec:
        cl.append(['unknown-keyword', rec['unknown']])
    return cl


# ---------------------------------------------------------------------------- flow (kept simple: C16 owns the semantics)

FLOW_MATCH = {
    # keyword: (largest value the component can carry, sample values)
    'destination-port': 65535,
    'source-port': 65535,
    'port': 65535,
    'packet-length': 65535,
    'dscp': 63,
    'protocol': 255,
    'icmp-type': 255,
    'icmp-code': 255,
}


@st.composite
def flow_cases(draw) -> dict:
    match = [['destination', 'destination ' + draw(st.sampled_from(['10.0.0.0/24', '192.0.2.1/32', '0.0.0.0/0']))]]
    if draw(st.booleans()):
        match.append(['source', 'source ' + draw(st.sampled_from(['10.1.0.0/16', '198.51.100.7/32']))])
    fits: bool | None = True
    mutation = None
    near = False
    for kw in draw(st.lists(st.sampled_from(sorted(FLOW_MATCH)), min_size=0, max_size=3, unique=True)):
        top = FLOW_MATCH[kw]
        v = draw(st.sampled_from([0, 1, top - 1, top, 80, 6]))
        v = min(v, top)
        near = near or v >= top - 1 or v <= 1
        op = draw(st.sampled_from(['=', '>', '<', '>=', '<=', '!=']))
        match.append([kw, f'{kw} {op}{v}'])
    then_kind = draw(st.sampled_from(['discard', 'rate-limit', 'redirect-as2', 'redirect-as4', 'mark', 'accept', 'redirect-ip', 'action']))
    then = {
        'discard': 'discard',
        'accept': 'accept',
        'rate-limit': 'rate-limit ' + str(draw(st.sampled_from([0, 9600, 10**6, 10**12]))),
        'redirect-as2': 'redirect ' + draw(st.sampled_from(['65535:4294967295', '1:1', '0:0', '65000:65536'])),
        'redirect-as4': 'redirect ' + draw(st.sampled_from(['65536:65535', '4294967295:0', '70000:1'])),
        'mark': 'mark ' + str(draw(st.sampled_from([0, 1, 62, 63]))),
        'redirect-ip': 'redirect ' + draw(st.sampled_from(['10.0.0.1', '192.0.2.255'])),
        'action': 'action ' + draw(st.sampled_from(['sample', 'terminal', 'sample-terminal'])),
    }[then_kind]
    then_cl = [[then_kind, then]]
    roll = draw(st.integers(0, 9))
    if roll >= 3:
        kind = draw(st.sampled_from(['match-over', 'match-over', 'match-malformed', 'then-over', 'then-over', 'then-malformed', 'prefix', 'dropped-value', 'unknown-keyword']))
        field = kind
        if kind == 'match-over':
            kw = draw(st.sampled_from(sorted(FLOW_MATCH)))
            top = FLOW_MATCH[kw]
            v = draw(st.sampled_from([top + 1, 65536, 2**32]))
            match = [m for m in match if m[0] != kw] + [[kw, f'{kw} {draw(st.sampled_from(["=", ">", "<="]))}{v}']]
            field, fits = kw, False
        elif kind == 'match-malformed':
            kw = draw(st.sampled_from(sorted(FLOW_MATCH) + ['tcp-flags', 'fragment']))
            bad = draw(st.sampled_from(['=x', '=-1', '=', '>', '=80&', '&=80', '=1.5', '[ =80', '=80 ]', '!', '=0x']))
            match = [m for m in match if m[0] != kw] + [[kw, f'{kw} {bad}']]
            field, fits = kw, None
        elif kind == 'then-over':
            label, then = draw(
                st.sampled_from(
                    [
                        ('redirect-as2-number', 'redirect 65535:4294967296'),
                        ('redirect-as4-number', 'redirect 65536:65536'),
                        ('redirect-asn', 'redirect 4294967296:1'),
                        ('redirect-as4-number', 'redirect 4294967295:65536'),
                        ('mark', 'mark 64'),
                        ('mark', 'mark 256'),
                        ('rate-limit-clamped', 'rate-limit 4294967296'),
                        ('rate-limit-clamped', 'rate-limit 1000000000001'),
                        ('rate-limit-clamped', 'rate-limit 340282366920938463463374607431768211456'),
                        ('rate-limit-packets', 'rate-limit 10000000000000000000000000000000000000000 packets'),
                    ]
                )
            )
            then_cl = [[then.split(' ')[0], then]]
            field = then.split(' ')[0]
            # rate-limit above the documented clamp of 10^12 octets/s is clamped with a warning (documented); packets are not
            fits = None if label == 'rate-limit-clamped' else False
            mutation = {'kind': kind, 'field': field, 'what': label}
        elif kind == 'then-malformed':
            then = draw(st.sampled_from(['redirect x:1', 'redirect 1:x', 'redirect 1', 'redirect :', 'redirect 1.2.3.999', 'redirect 1.2.3.4:65536', 'mark x', 'mark -1', 'rate-limit x', 'rate-limit -1', 'rate-limit 1.5', 'action drop', 'redirect-to-nexthop-ietf 1.2.3.999', 'copy 1.2.3', 'redirect [2001:db8::1]:65536', 'redirect [2001:db8::1', 'mark', 'rate-limit', 'redirect']))
            then_cl = [[then.split(' ')[0], then]]
            field, fits = then.split(' ')[0], None
        elif kind == 'prefix':
            label, bad = draw(
                st.sampled_from(
                    [
                        ('mask-over', '10.0.0.0/33'),
                        ('mask-over', '2001:db8::/129'),
                        ('no-mask', '10.0.0.0'),
                        ('malformed-address', '300.0.0.0/8'),
                        ('malformed-address', '10.0.0/24'),
                        ('malformed-address', '2001:db8::zz/32'),
                        ('malformed-mask', '10.0.0.0/x'),
                        ('malformed-mask', '10.0.0.0/-1'),
                        ('malformed-mask', '2001:db8::/x'),
                        ('offset-over', '2001:db8::/32/200'),
                        ('offset-over', '2001:db8::/32/33'),
                    ]
                )
            )
            which = draw(st.sampled_from(['destination', 'source']))
            match = [m for m in match if m[0] not in ('destination', 'source')] + [[which, f'{which} {bad}']]
            field, fits = which, False
            mutation = {'kind': kind, 'field': field, 'what': label}
        elif kind == 'dropped-value':
            i = draw(st.integers(0, len(match) - 1))
            match[i] = [match[i][0], match[i][0]]
            field, fits = match[i][0], None
        else:
            match.append(['unknown-keyword', draw(st.sampled_from(['bogus 1', 'ttl =5', 'destination-ports =80']))])
            field, fits = 'unknown-keyword', None
        mutation = mutation or {'kind': kind, 'field': field, 'what': kind}
    return {
        'entry': draw(st.sampled_from(['api-block', 'api-block', 'api-flat', 'api-legacy', 'family', 'config'])),
        'match': match,
        'then': then_cl,
        'fits': fits,
        'mutation': mutation,
        'near': near or mutation is not None,
    }
