"""runner.py - common driver for every property check.

./check Cxx [--tier quick|thorough] [--replay FILE] [--shards N] [--examples N]

A property module (props/cXX.py) exposes

    PROPERTY = 'C07'
    ENGINES  = [Engine(...), ...]         # see class Engine
    ASSUMPTIONS = [...]
    RULE = 'how cases are generated and what makes one non-trivial'

Each engine has a Hypothesis strategy producing JSON-able cases and a check function
`check(case) -> dict(nontrivial=bool, classes=[str])` raising `Violation(signature, message)`.

Exit codes: 0 held / only known findings, 1 violation (VIOLATION line), 2 harness error.
"""

from __future__ import annotations

import argparse
import hashlib
import importlib
import json
import os
import subprocess
import sys
import time
import traceback
from typing import Any, Callable

HERE = os.path.dirname(os.path.dirname(os.path.abspath(__file__)))
REPO_SRC = os.environ.get('VERIF_REPO_SRC', '/repo/src').rstrip('/')


class Violation(Exception):
    """the property is broken on this case; signature identifies the root cause"""

    def __init__(self, signature: str, message: str = '') -> None:
        Exception.__init__(self, f'{signature}: {message}')
        self.signature = signature
        self.message = message


class Engine:
    def __init__(
        self,
        name: str,
        strategy: Any,
        check: Callable[[Any], dict],
        quick: int = 500,
        thorough: int = 5000,
        batch: int = 250,
        fixed_cases: Callable[[], list] | None = None,
        stateful: bool = False,
        quick_s: float = 45.0,
        thorough_s: float = 600.0,
        reset: Callable[[], None] | None = None,
    ) -> None:
        self.name = name
        self.strategy = strategy  # callable returning a strategy (lazy) or a strategy
        self.check = check
        self.quick = quick  # examples per shard
        self.thorough = thorough
        self.batch = batch
        self.fixed_cases = fixed_cases  # enumerated cases run in every tier (shard 0 only)
        self.quick_s = quick_s
        self.thorough_s = thorough_s
        self.reset = reset


# ---------------------------------------------------------------------------- helpers


def canonical(case: Any) -> str:
    return json.dumps(case, sort_keys=True, separators=(',', ':'), default=str)


def digest(case: Any) -> str:
    return hashlib.sha1(canonical(case).encode()).hexdigest()[:16]


def innermost_repo_frame(exc: BaseException) -> str | None:
    tb = traceback.extract_tb(exc.__traceback__)
    for frame in reversed(tb):
        fn = frame.filename
        if fn.startswith(REPO_SRC):
            return f'{os.path.relpath(fn, REPO_SRC)}:{frame.name}'
    return None


def _innermost_repo_frame_of(frame: Any) -> str:
    while frame is not None:
        fn = frame.f_code.co_filename
        if fn.startswith(REPO_SRC):
            return f'{os.path.relpath(fn, REPO_SRC)}:{frame.f_code.co_name}'
        frame = frame.f_back
    return 'outside-exabgp'


def innermost_frame_is_repo(exc: BaseException) -> bool:
    tb = traceback.extract_tb(exc.__traceback__)
    if not tb:
        return False
    # the exception is attributed to exabgp when the deepest frame that belongs either to
    # exabgp or to /verif is exabgp's (library frames below it are ignored)
    for frame in reversed(tb):
        if frame.filename.startswith(REPO_SRC):
            return True
        if frame.filename.startswith(HERE):
            return False
    return False


def exception_signature(prefix: str, exc: BaseException) -> str:
    where = innermost_repo_frame(exc) or 'outside-exabgp'
    return f'{prefix}:{type(exc).__name__}@{where}'


def guard(prefix: str, fn: Callable, *args: Any, **kwargs: Any) -> Any:
    """call exabgp code; any exception is a violation with a root-cause signature"""
    try:
        return fn(*args, **kwargs)
    except Violation:
        raise
    except RecursionError as exc:
        raise Violation(f'{prefix}:RecursionError', str(exc)[:200]) from None
    except Exception as exc:  # noqa: BLE001
        raise Violation(exception_signature(prefix, exc), repr(exc)[:300]) from exc


def shorten(obj: Any, limit: int = 400) -> Any:
    text = canonical(obj)
    if len(text) <= limit:
        return obj
    return {'truncated': text[:limit] + '...', 'len': len(text)}


# ---------------------------------------------------------------------------- findings


def load_findings(prop: str) -> tuple[list[dict], list[dict]]:
    path = os.path.join(HERE, 'known_findings.json')
    if not os.path.exists(path):
        return [], []
    with open(path) as fh:
        data = json.load(fh)
    known = [f for f in data.get('findings', []) if f['property'] == prop and f['status'] == 'known']
    fixed = [f for f in data.get('findings', []) if f['property'] == prop and f['status'] == 'fixed']
    return known, fixed


def sig_matches(entry: dict, signature: str) -> bool:
    import fnmatch

    pats = entry.get('signatures') or [entry['signature']]
    return any(fnmatch.fnmatchcase(signature, p) for p in pats)


# ---------------------------------------------------------------------------- one shard


class ShardResult:
    def __init__(self) -> None:
        self.evaluations = 0
        self.nontrivial: set[str] = set()
        self.classes: dict[str, int] = {}
        self.samples: list[Any] = []
        self.known_hits: dict[str, int] = {}
        self.violations: list[dict] = []  # {signature, message, engine, case}
        self.notes: list[str] = []
        self.inconclusive = 0

    def to_json(self) -> dict:
        return {
            'evaluations': self.evaluations,
            'nontrivial': sorted(self.nontrivial),
            'classes': self.classes,
            'samples': self.samples,
            'known_hits': self.known_hits,
            'violations': self.violations,
            'notes': self.notes,
            'inconclusive': self.inconclusive,
        }


class Inconclusive(Exception):
    """a bounded-liveness wait ran out: counted, never a violation"""


def run_case(engine: Engine, case: Any, res: ShardResult, known: list[dict], excluded: set[str], sample_cap: int = 6) -> None:
    """run one case; raise Violation only for unknown, non-excluded signatures"""
    res.evaluations += 1
    if engine.reset:
        engine.reset()
    limit = getattr(engine, 'case_timeout', None)
    try:
        if limit:
            # a safety net, not an oracle of speed: a case that normally takes milliseconds and has not returned after `limit`
            # seconds is stuck in a loop (the alternative is a check that never ends and reports nothing)
            import signal

            def _stuck(signum, frame):
                raise Violation(f'stuck:no-return-within-{limit}s', 'the call did not return; innermost exabgp frame: ' + _innermost_repo_frame_of(frame))

            signal.signal(signal.SIGALRM, _stuck)
            signal.alarm(int(limit))
        try:
            info = engine.check(case)
        finally:
            if limit:
                signal.alarm(0)
    except Violation as v:
        for entry in known:
            if sig_matches(entry, v.signature):
                res.known_hits[entry['id']] = res.known_hits.get(entry['id'], 0) + 1
                return
        if v.signature in excluded:
            return
        raise
    except Inconclusive:
        res.inconclusive += 1
        return
    except RecursionError as exc:
        v = Violation('harness-or-code:RecursionError', str(exc)[:100])
        if v.signature in excluded:
            return
        for entry in known:
            if sig_matches(entry, v.signature):
                res.known_hits[entry['id']] = res.known_hits.get(entry['id'], 0) + 1
                return
        raise v from None
    except Exception as exc:  # noqa: BLE001
        if type(exc).__module__.startswith('hypothesis'):
            raise
        if innermost_frame_is_repo(exc):
            v = Violation(exception_signature('exception', exc), repr(exc)[:300])
            for entry in known:
                if sig_matches(entry, v.signature):
                    res.known_hits[entry['id']] = res.known_hits.get(entry['id'], 0) + 1
                    return
            if v.signature in excluded:
                return
            raise v from exc
        raise
    info = info or {}
    for c in info.get('classes', []):
        res.classes[c] = res.classes.get(c, 0) + 1
    if info.get('nontrivial'):
        d = digest(case)
        if d not in res.nontrivial:
            res.nontrivial.add(d)
            if len(res.samples) < sample_cap:
                res.samples.append(shorten({'engine': engine.name, 'case': info.get('sample', case)}))


def run_engine_shard(prop: str, engine: Engine, tier: str, seed: int, shard: int, nshards: int, res: ShardResult, known: list[dict], examples_override: int | None) -> None:
    from hypothesis import HealthCheck, Phase, given, settings
    from hypothesis import seed as hseed

    total = examples_override if examples_override is not None else (engine.quick if tier == 'quick' else engine.thorough)
    budget = engine.quick_s if tier == 'quick' else engine.thorough_s
    started = time.time()
    excluded: set[str] = set()

    # enumerated part (finite grids): split across shards
    if engine.fixed_cases is not None:
        cases = engine.fixed_cases()
        for i, case in enumerate(cases):
            if i % nshards != shard:
                continue
            try:
                run_case(engine, case, res, known, excluded)
            except Violation as v:
                excluded.add(v.signature)
                res.violations.append({'signature': v.signature, 'message': v.message, 'engine': engine.name, 'case': case})
        res.classes[f'{engine.name}:enumerated'] = res.classes.get(f'{engine.name}:enumerated', 0) + len(cases[shard::nshards])

    strategy = engine.strategy() if callable(engine.strategy) else engine.strategy
    if strategy is None or total <= 0:
        return

    batch_no = 0
    done = 0
    while done < total:
        if time.time() - started > budget:
            res.notes.append(f'{engine.name}: wall budget {budget}s reached after {done}/{total} generated cases (shard {shard})')
            break
        n = min(engine.batch, total - done)
        sub = int(hashlib.sha1(f'{seed}/{shard}/{engine.name}/{batch_no}'.encode()).hexdigest()[:12], 16)
        state = {'best': None, 'first_fail_at': None, 'count': 0}
        shrink_budget = 40.0 if tier == 'quick' else 120.0

        def body(case: Any) -> None:
            state['count'] += 1
            if state['first_fail_at'] is not None and time.time() - state['first_fail_at'] > shrink_budget:
                return  # shrink budget used: starve the shrinker
            try:
                run_case(engine, case, res, known, excluded)
            except Violation as v:
                if state['first_fail_at'] is None:
                    state['first_fail_at'] = time.time()
                size = len(canonical(case))
                best = state['best']
                if best is None or (v.signature == best['signature'] and size <= best['size']) :
                    state['best'] = {'signature': v.signature, 'message': v.message, 'case': case, 'size': size}
                elif best is not None and v.signature != best['signature']:
                    # another root cause met while shrinking: do not let the shrinker slip to it
                    return
                raise

        test = given(strategy)(body)
        test = hseed(sub)(test)
        test = settings(
            max_examples=n,
            database=None,
            deadline=None,
            derandomize=False,
            report_multiple_bugs=False,
            suppress_health_check=list(HealthCheck),
            phases=[Phase.generate, Phase.shrink],
        )(test)
        try:
            test()
        except Violation:
            pass
        except Exception as exc:  # noqa: BLE001
            if state['best'] is None:
                raise
            res.notes.append(f'{engine.name}: hypothesis ended with {type(exc).__name__} after a violation was recorded')
        if state['best'] is not None:
            best = state['best']
            res.violations.append({'signature': best['signature'], 'message': best['message'], 'engine': engine.name, 'case': best['case']})
            excluded.add(best['signature'])
            # the evaluations spent shrinking are real evaluations; carry on behind this root cause
            if tier == 'quick' and len(res.violations) >= 3:
                break
        done += n
        batch_no += 1


def run_shard(prop: str, tier: str, seed: int, shard: int, nshards: int, examples_override: int | None) -> ShardResult:
    mod = importlib.import_module(f'props.{prop.lower()}')
    res = ShardResult()
    known, _fixed = load_findings(prop)
    for engine in mod.ENGINES:
        run_engine_shard(prop, engine, tier, seed, shard, nshards, res, known, examples_override)
    return res


# ---------------------------------------------------------------------------- replay


def replay_case(mod: Any, engine_name: str, case: Any) -> Violation | None:
    engine = next((e for e in mod.ENGINES if e.name == engine_name), None)
    if engine is None:
        raise RuntimeError(f'no engine {engine_name} in {mod.__name__}')
    res = ShardResult()
    try:
        run_case(engine, case, res, [], set())
    except Violation as v:
        return v
    return None


def replay_in_subprocess(prop: str, engine: str, case: Any) -> dict:
    """replay in a fresh interpreter (global exabgp state must not leak between replays)"""
    payload = json.dumps({'engine': engine, 'case': case})
    proc = subprocess.run(
        [sys.executable, '-m', 'vlib.cli', prop, '--replay-stdin'],
        input=payload.encode(),
        stdout=subprocess.PIPE,
        stderr=subprocess.PIPE,
        cwd=HERE,
        timeout=600,
    )
    for line in proc.stdout.decode().splitlines():
        if line.startswith('REPLAY-RESULT '):
            return json.loads(line[len('REPLAY-RESULT ') :])
    raise RuntimeError(f'replay subprocess failed: rc={proc.returncode} {proc.stderr.decode()[-2000:]}')


# ---------------------------------------------------------------------------- main


def write_evidence(prop: str, tier: str, seed: int, coverage: dict, assumptions: list[str], wall: float, violations: int) -> None:
    os.makedirs(os.path.join(HERE, 'evidence'), exist_ok=True)
    path = os.path.join(HERE, 'evidence', f'{prop}.json')
    with open(path, 'w') as fh:
        json.dump(
            {
                'property_id': prop,
                'tier': tier,
                'seed': seed,
                'level': 'exploration',
                'coverage': coverage,
                'assumptions': assumptions,
                'wall_s': round(wall, 2),
                'violations': violations,
            },
            fh,
            indent=1,
            sort_keys=True,
            default=str,
        )
        fh.write('\n')


def save_replay(prop: str, violation: dict) -> str:
    d = os.path.join(HERE, 'replays', prop)
    os.makedirs(d, exist_ok=True)
    name = digest({'s': violation['signature'], 'c': violation['case']})
    path = os.path.join(d, f'{name}.json')
    with open(path, 'w') as fh:
        json.dump(
            {'property': prop, 'engine': violation['engine'], 'signature': violation['signature'], 'message': violation['message'], 'case': violation['case']},
            fh,
            indent=1,
            sort_keys=True,
            default=str,
        )
        fh.write('\n')
    return os.path.relpath(path, HERE)


def main() -> int:
    ap = argparse.ArgumentParser()
    ap.add_argument('property')
    ap.add_argument('--tier', default=os.environ.get('VERIF_TIER', 'quick'), choices=['quick', 'thorough'])
    ap.add_argument('--replay')
    ap.add_argument('--replay-stdin', action='store_true')
    ap.add_argument('--shard')
    ap.add_argument('--shards', type=int)
    ap.add_argument('--examples', type=int)
    ap.add_argument('--out')
    ap.add_argument('--engine')
    args = ap.parse_args()

    prop = args.property.upper()
    seed = int(os.environ.get('VERIF_SEED', '1') or '1')
    sys.setrecursionlimit(max(sys.getrecursionlimit(), 1000))

    cov = None
    if args.shard and os.environ.get('VERIF_COVERAGE'):
        # development aid (tools/coverage_gaps.sh): which lines of exabgp does this check execute at all?
        import coverage

        cov = coverage.Coverage(data_file=os.path.join(os.environ['VERIF_COVERAGE'], f'cov.{prop}'), data_suffix=True, include=[REPO_SRC + '/*'])
        cov.start()

    try:
        mod = importlib.import_module(f'props.{prop.lower()}')
    except Exception:  # noqa: BLE001
        traceback.print_exc()
        print(f'HARNESS-ERROR property={prop} cannot import check module')
        return 2

    if args.engine:
        mod.ENGINES = [e for e in mod.ENGINES if e.name == args.engine]

    # -- replay of one case in this (fresh) process
    if args.replay_stdin:
        payload = json.loads(sys.stdin.read())
        try:
            v = replay_case(mod, payload['engine'], payload['case'])
        except Exception:  # noqa: BLE001
            traceback.print_exc()
            return 2
        out = {'violation': bool(v), 'signature': v.signature if v else None, 'message': v.message if v else None}
        print('REPLAY-RESULT ' + json.dumps(out))
        return 0

    if args.replay:
        with open(args.replay) as fh:
            data = json.load(fh)
        try:
            v = replay_case(mod, data['engine'], data['case'])
        except Exception:  # noqa: BLE001
            traceback.print_exc()
            print(f'HARNESS-ERROR property={prop} replay raised')
            return 2
        if v:
            known, _ = load_findings(prop)
            for entry in known:
                if sig_matches(entry, v.signature):
                    print(f'KNOWN-FINDING: property={prop} {entry["what"]}')
                    return 0
            print(f'reproduced: {v.signature}: {v.message}')
            print(f'VIOLATION property={prop} replay={args.replay}')
            return 1
        print('replay passes: the property holds on this case')
        return 0

    # -- a single shard (worker)
    if args.shard:
        i, n = (int(x) for x in args.shard.split('/'))
        try:
            res = run_shard(prop, args.tier, seed, i, n, args.examples)
        except Exception:  # noqa: BLE001
            traceback.print_exc()
            return 2
        finally:
            if cov is not None:
                cov.stop()
                cov.save()
        with open(args.out, 'w') as fh:
            json.dump(res.to_json(), fh, default=str)
        return 0

    # -- coordinator
    started = time.time()
    tier = args.tier
    nshards = args.shards or (getattr(mod, 'QUICK_SHARDS', 4) if tier == 'quick' else getattr(mod, 'THOROUGH_SHARDS', 16))
    known, fixed = load_findings(prop)
    lines: list[str] = []
    violations: list[dict] = []
    notes: list[str] = []
    known_status: dict[str, str] = {}

    # 0. deterministic replay of listed findings (fresh process each, several at a time)
    from concurrent.futures import ThreadPoolExecutor

    def _replay(entry):
        try:
            return replay_in_subprocess(prop, entry['engine'], entry['case'])
        except Exception as exc:  # noqa: BLE001
            return exc

    with ThreadPoolExecutor(max_workers=8) as pool:
        replayed = list(pool.map(_replay, known + fixed))
    replay_of = {id(e): r for e, r in zip(known + fixed, replayed)}
    for entry in known:
        r = replay_of[id(entry)]
        if isinstance(r, Exception):
            print(f'HARNESS-ERROR property={prop} replay of finding {entry["id"]}: {r}')
            return 2
        if r['violation'] and sig_matches(entry, r['signature']):
            lines.append(f'KNOWN-FINDING: property={prop} {entry["id"]}: {entry["what"]}')
            known_status[entry['id']] = 'reproduces'
        elif r['violation']:
            # the stored input now fails differently: that is not the listed finding
            violations.append({'signature': r['signature'], 'message': r['message'], 'engine': entry['engine'], 'case': entry['case']})
            known_status[entry['id']] = f'fails with another signature: {r["signature"]}'
        else:
            known_status[entry['id']] = 'listed finding no longer reproduces'
    for entry in fixed:
        r = replay_of[id(entry)]
        if isinstance(r, Exception):
            print(f'HARNESS-ERROR property={prop} replay of fixed finding {entry["id"]}: {r}')
            return 2
        if r['violation'] and any(sig_matches(e, r['signature']) for e in known):
            # the stored input now gets past the repaired defect and meets another, listed one
            known_status[entry['id']] = f'fixed, passes (the input goes on to the listed finding {r["signature"]})'
        elif r['violation']:
            violations.append({'signature': r['signature'], 'message': r['message'], 'engine': entry['engine'], 'case': entry['case']})
            known_status[entry['id']] = 'FIXED FINDING IS BACK'
        else:
            known_status[entry['id']] = 'fixed, passes'

    # saved regression replays
    rdir = os.path.join(HERE, 'replays', prop)
    regress = 0
    if os.path.isdir(rdir):
        for name in sorted(os.listdir(rdir)):
            if not name.endswith('.json'):
                continue
            with open(os.path.join(rdir, name)) as fh:
                data = json.load(fh)
            if not data.get('regression'):
                continue
            regress += 1
            r = replay_in_subprocess(prop, data['engine'], data['case'])
            if r['violation'] and not any(sig_matches(e, r['signature']) for e in known):
                violations.append({'signature': r['signature'], 'message': r['message'], 'engine': data['engine'], 'case': data['case']})

    # 1. generated search, sharded
    work = os.path.join(HERE, '.work', f'{prop}-{os.getpid()}')
    os.makedirs(work, exist_ok=True)
    procs = []
    for i in range(nshards):
        out = os.path.join(work, f'shard{i}.json')
        cmd = [sys.executable, '-m', 'vlib.cli', prop, '--tier', tier, '--shard', f'{i}/{nshards}', '--out', out]
        if args.examples is not None:
            cmd += ['--examples', str(args.examples)]
        if args.engine:
            cmd += ['--engine', args.engine]
        log = open(os.path.join(work, f'shard{i}.log'), 'w')
        procs.append((subprocess.Popen(cmd, cwd=HERE, stdout=log, stderr=subprocess.STDOUT), out, log))
    merged = ShardResult()
    harness_error = False
    for i, (p, out, log) in enumerate(procs):
        rc = p.wait()
        log.close()
        if rc != 0 or not os.path.exists(out):
            harness_error = True
            with open(os.path.join(work, f'shard{i}.log')) as fh:
                sys.stderr.write(fh.read()[-4000:])
            continue
        with open(out) as fh:
            r = json.load(fh)
        merged.evaluations += r['evaluations']
        merged.nontrivial.update(r['nontrivial'])
        merged.inconclusive += r['inconclusive']
        for k, v in r['classes'].items():
            merged.classes[k] = merged.classes.get(k, 0) + v
        for k, v in r['known_hits'].items():
            merged.known_hits[k] = merged.known_hits.get(k, 0) + v
        for s in r['samples']:
            if len(merged.samples) < 8:
                merged.samples.append(s)
        merged.violations.extend(r['violations'])
        notes.extend(r['notes'])
    import shutil

    shutil.rmtree(work, ignore_errors=True)
    try:
        os.rmdir(os.path.join(HERE, '.work'))
    except OSError:
        pass
    if harness_error:
        print(f'HARNESS-ERROR property={prop} a shard failed (see stderr)')
        return 2

    # one VIOLATION per distinct signature
    seen: set[str] = set()
    for v in violations + merged.violations:
        if v['signature'] in seen:
            continue
        seen.add(v['signature'])
        path = save_replay(prop, v)
        lines.append(f'violation: {v["signature"]}: {v["message"][:300]}')
        lines.append(f'VIOLATION property={prop} replay={path}')

    extra = {}
    if hasattr(mod, 'extra_coverage'):
        try:
            extra = mod.extra_coverage(merged) or {}
        except Exception:  # noqa: BLE001
            extra = {}
    coverage = {
        'evaluations': merged.evaluations,
        'distinct_nontrivial': len(merged.nontrivial),
        'rule': getattr(mod, 'RULE', ''),
        'samples': merged.samples or [{'note': 'no non-trivial case was generated'}],
        'classes': dict(sorted(merged.classes.items())),
        'known_finding_hits': merged.known_hits,
        'known_findings_replayed': known_status,
        'regression_replays': regress,
        'inconclusive': merged.inconclusive,
        'shards': nshards,
        'notes': notes,
        'violation_signatures': sorted(seen),
    }
    coverage.update(extra)
    write_evidence(prop, tier, seed, coverage, getattr(mod, 'ASSUMPTIONS', []), time.time() - started, len(seen))
    for line in lines:
        print(line)
    print(
        f'{prop} {tier}: evaluations={merged.evaluations} distinct_nontrivial={len(merged.nontrivial)} '
        f'known_hits={sum(merged.known_hits.values())} violations={len(seen)} wall={time.time() - started:.1f}s'
    )
    if seen:
        return 1
    if merged.evaluations == 0 or len(merged.nontrivial) < 2:
        print(f'HARNESS-ERROR property={prop} generator produced too few non-trivial cases')
        return 2
    return 0


if __name__ == '__main__':
    sys.exit(main())
