"""c03_target.py - the one entry point every C03 engine (Hypothesis and atheris) drives.

decode_and_force(msg_type, body, negotiated) does what Protocol.read_message does with a framed message:
Message.unpack(type, body, negotiated), then everything the reactor and the API encoders do with the result
(JSON v6, JSON v4 and text encoders of reactor/api/response, str(), the RIB index of every NLRI, and for an OPEN the
Negotiated.received()/validate() pair).  Nothing here is called that production does not call on a received message.

Outcome:  ('ok', kind) | ('notify', code, subcode) | ('violation', signature, detail)
"""

from __future__ import annotations

import fnmatch
import os
import sys

from vlib import exa
from vlib.refwire import build
from vlib.runner import exception_signature, innermost_repo_frame

# ---------------------------------------------------------------------------- defined NOTIFICATION codes
# RFC 4271 4.5 / 6 (codes 1-6; subcode 0 "Unspecific" exists for every code), RFC 5492 (2/7), RFC 9234 (2/11),
# RFC 6608 (5/1-3), RFC 4486 (6/1-8), RFC 8538 (6/9), RFC 9384 (6/10), RFC 7313 (7/1).
# exabgp extensions it documents in Notification._str_subcode: 2/8-10 (multisession draft), 7/2 (enhanced refresh draft).
DEFINED_SUBCODES = {
    1: {0, 1, 2, 3},
    2: {0, 1, 2, 3, 4, 5, 6, 7, 8, 9, 10, 11},
    3: {0, 1, 2, 3, 4, 5, 6, 7, 8, 9, 10, 11},
    4: {0},
    5: {0, 1, 2, 3},
    6: {0, 1, 2, 3, 4, 5, 6, 7, 8, 9, 10},
    7: {0, 1, 2},
}


def defined(code: int, subcode: int) -> bool:
    return subcode in DEFINED_SUBCODES.get(code, ())


# ---------------------------------------------------------------------------- negotiated parameter sets

V4U, V4M, V4L, V4V = 'ipv4 unicast', 'ipv4 multicast', 'ipv4 nlri-mpls', 'ipv4 mpls-vpn'
V6U, V6L, V6V = 'ipv6 unicast', 'ipv6 nlri-mpls', 'ipv6 mpls-vpn'
FAMILY_CODE = {
    V4U: (1, 1), V4M: (1, 2), V4L: (1, 4), V4V: (1, 128), 'ipv4 mcast-vpn': (1, 5), 'ipv4 flow': (1, 133), 'ipv4 flow-vpn': (1, 134),
    'ipv4 mup': (1, 85), 'ipv4 sr-policy': (1, 73),
    V6U: (2, 1), V6L: (2, 4), V6V: (2, 128), 'ipv6 mcast-vpn': (2, 5), 'ipv6 flow': (2, 133), 'ipv6 flow-vpn': (2, 134),
    'ipv6 mup': (2, 85), 'ipv6 sr-policy': (2, 73),
    'l2vpn vpls': (25, 65), 'l2vpn evpn': (25, 70), 'bgp-ls bgp-ls': (16388, 71), 'bgp-ls bgp-ls-vpn': (16388, 72),
}  # fmt: skip
ALL_FAMILIES = list(FAMILY_CODE)
ADDPATH_OK = [V4U, V6U, V4L, V6L, V4V, V6V]

# name, families, peer speaks asn4, add-path families, extended next hop, extended message, received (False = OPEN not seen yet)
NEG_SPECS = [
    {'name': 'opensent', 'families': [V4U, V6U], 'asn4': True, 'addpath': [], 'extnh': False, 'extmsg': False, 'received': False},
    {'name': 'unicast-asn4', 'families': [V4U, V6U], 'asn4': True, 'addpath': [], 'extnh': False, 'extmsg': False},
    {'name': 'unicast-mcast-asn2', 'families': [V4U, V4M, V6U], 'asn4': False, 'addpath': [], 'extnh': False, 'extmsg': False},
    {'name': 'ip-addpath', 'families': [V4U, V6U, V4L, V6L, V4V, V6V], 'asn4': True, 'addpath': ADDPATH_OK, 'extnh': False, 'extmsg': False},
    {'name': 'labeled-vpn', 'families': [V4U, V4L, V6L, V4V, V6V], 'asn4': True, 'addpath': [], 'extnh': False, 'extmsg': False},
    {'name': 'flow', 'families': [V4U, 'ipv4 flow', 'ipv4 flow-vpn', 'ipv6 flow', 'ipv6 flow-vpn'], 'asn4': True, 'addpath': [], 'extnh': False, 'extmsg': False},
    {'name': 'l2vpn', 'families': [V4U, 'l2vpn evpn', 'l2vpn vpls'], 'asn4': True, 'addpath': [], 'extnh': False, 'extmsg': False},
    {'name': 'bgp-ls', 'families': [V4U, 'bgp-ls bgp-ls', 'bgp-ls bgp-ls-vpn'], 'asn4': True, 'addpath': [], 'extnh': False, 'extmsg': False},
    {
        'name': 'mup-mvpn-srpolicy',
        'families': [V4U, 'ipv4 mup', 'ipv6 mup', 'ipv4 mcast-vpn', 'ipv6 mcast-vpn', 'ipv4 sr-policy', 'ipv6 sr-policy'],
        'asn4': True, 'addpath': [], 'extnh': False, 'extmsg': False,
    },  # fmt: skip
    {'name': 'ext-nexthop', 'families': [V4U, V4L, V4V, V6U, V6L, V6V], 'asn4': True, 'addpath': [], 'extnh': True, 'extmsg': False},
    {'name': 'all-extmsg', 'families': ALL_FAMILIES, 'asn4': True, 'addpath': ADDPATH_OK, 'extnh': False, 'extmsg': True},
    {'name': 'all-asn2', 'families': ALL_FAMILIES, 'asn4': False, 'addpath': [], 'extnh': False, 'extmsg': False},
    {'name': 'unicast-extmsg', 'families': [V4U, V6U], 'asn4': True, 'addpath': [], 'extnh': False, 'extmsg': True},
    # (appended last: stored cases name a set by position) every family together with RFC 8950, which switches the
    # MP_REACH next-hop length rules for all of them
    {'name': 'all-extnh', 'families': ALL_FAMILIES, 'asn4': True, 'addpath': [], 'extnh': True, 'extmsg': False},
]
NEG_NAMES = [s['name'] for s in NEG_SPECS]
NEG_INDEX = {s['name']: i for i, s in enumerate(NEG_SPECS)}

NEG_TABLE: list = []  # [(neighbor, negotiated)] filled at import


def peer_open_body(spec: dict) -> bytes:
    caps = [build.cap_mp(*FAMILY_CODE[f]) for f in spec['families']]
    if spec['asn4']:
        caps.append(build.cap_asn4(65001))
    if spec['addpath']:
        caps.append(build.cap_addpath([FAMILY_CODE[f] + (3,) for f in spec['addpath']]))
    if spec['extnh']:
        caps.append(build.cap_ext_nh([(1, 1, 2), (1, 4, 2), (1, 128, 2)]))
    if spec['extmsg']:
        caps.append(build.cap_ext_msg())
    caps.append(build.cap_refresh())
    caps.append(build.cap_erefresh())
    return build.open_with_caps(65001, 90, 0x0A000002, caps)


def _build_table() -> None:
    from exabgp.bgp.message.open.capability import Negotiated

    for i, spec in enumerate(NEG_SPECS):
        nh = ['ipv4 unicast ipv6', 'ipv4 nlri-mpls ipv6', 'ipv4 mpls-vpn ipv6'] if spec['extnh'] else None
        text = exa.neighbor_text(
            peer_ip=f'127.3.0.{i + 1}',  # RIB objects are shared by neighbor name: one peer address per parameter set
            local_as=65000,
            peer_as=65001,
            families=spec['families'],
            capability={
                'asn4': 'enable',
                'add-path': 'send/receive' if spec['addpath'] else 'disable',
                'extended-message': 'enable' if spec['extmsg'] else 'disable',
                'nexthop': 'enable' if spec['extnh'] else 'disable',
                'aigp': 'enable',
                'operational': 'enable',
                'route-refresh': 'enable',
            },
            addpath_families=spec['addpath'] or None,
            nexthop=nh,
        )
        _conf, neighbor = exa.neighbor_from_text(text)
        if spec.get('received', True):
            neg = exa.negotiate(neighbor, peer_open_body(spec), exa.Direction.IN)
        else:
            neg = Negotiated.make_negotiated(neighbor, exa.Direction.IN)
            neg.sent(exa.our_open(neighbor))
        NEG_TABLE.append((neighbor, neg))


_build_table()


def negotiated_for(index: int):
    return NEG_TABLE[index % len(NEG_TABLE)][1]


def msg_size(index: int) -> int:
    return int(negotiated_for(index).msg_size)


# ---------------------------------------------------------------------------- forcing

_ENCODERS: list = []


def _encoders() -> list:
    if not _ENCODERS:
        from exabgp.reactor.api.response import Response
        from exabgp.version import json as json_v6
        from exabgp.version import json_v4, text_v4

        # the three encoders Processes._start can install for an API process
        _ENCODERS.extend([Response.JSON(json_v6), Response.V4.JSON(json_v4), Response.V4.Text(text_v4)])
    return _ENCODERS


def _force(msg_type: int, message, negotiated) -> str:
    """what the reactor and the API writer do with a decoded message; returns the kind for the class label"""
    from exabgp.bgp.message import Message
    from exabgp.bgp.message.open.capability import Negotiated

    neighbor = negotiated.neighbor
    code = Message.CODE
    if msg_type == code.UPDATE:
        if getattr(message, 'IS_EOR', False):
            collection = message
            kind = 'eor'
        else:
            collection = message.data  # Processes._update
            kind = 'update'
            for routed in collection.announces:
                routed.nlri.index()  # Adj-RIB-In key
                str(routed.nlri)
            for nlri in collection.withdraws:
                nlri.index()
                str(nlri)
            collection.attributes.index()
            if not collection.announces and not collection.withdraws:
                kind = 'update-empty'
        for enc in _encoders():
            enc.update(neighbor, 'receive', collection, b'', b'', negotiated)
        return kind
    if msg_type == code.OPEN:
        str(message)  # Protocol.read_open logs it
        for enc in _encoders():
            enc.open(neighbor, 'receive', message, b'', b'', negotiated)
        # Peer: negotiated.received(open) then Protocol.validate_open
        fresh = Negotiated.make_negotiated(neighbor, exa.Direction.IN)
        fresh.sent(negotiated.sent_open or exa.our_open(neighbor))
        fresh.received(message)
        error = fresh.validate(neighbor)
        if error is not None:
            raise exa.Notify(*error)
        for enc in _encoders():
            enc.negotiated(neighbor, fresh)
        return 'open'
    if msg_type == code.NOTIFICATION:
        str(message)
        for enc in _encoders():
            enc.notification(neighbor, 'receive', message, b'', b'', negotiated)
        return 'notification'
    if msg_type == code.KEEPALIVE:
        str(message)
        for enc in _encoders():
            enc.keepalive(neighbor, 'receive', b'', b'', negotiated)
        return 'keepalive'
    if msg_type == code.ROUTE_REFRESH:
        str(message)
        message.extensive()
        for enc in _encoders():
            enc.refresh(neighbor, 'receive', message, b'', b'', negotiated)
        return 'refresh'
    if msg_type == code.OPERATIONAL:
        str(message)
        for enc in _encoders():
            enc.operational(neighbor, 'receive', message.category, message, b'', b'', negotiated)
        return 'operational'
    str(message)
    return 'other'


def decode_and_force(msg_type: int, body: bytes, negotiated) -> tuple:
    from exabgp.bgp.message import Message
    from exabgp.bgp.message.notification import Notification, Notify

    exa.reset_global_state()
    phase = 'decode'
    try:
        # Connection.reader_async hands the body up as a memoryview: decoders that only work on bytes must show here
        message = Message.unpack(msg_type, memoryview(bytes(body)), negotiated)
        if msg_type == 3 and not isinstance(message, Notification):
            return ('violation', 'decode:notification-not-yielded', repr(message)[:200])
        phase = 'render'
        kind = _force(msg_type, message, negotiated)
        return ('ok', kind)
    except Notify as exc:
        try:
            code, subcode = int(exc.code), int(exc.subcode)
        except Exception as inner:  # noqa: BLE001
            return ('violation', exception_signature(f'{phase}:notify-unreadable', inner), repr(inner)[:200])
        if not defined(code, subcode):
            return ('violation', f'{phase}:undefined-notify:{code}/{subcode}@{innermost_repo_frame(exc)}', str(exc)[:200])
        return ('notify', code, subcode)
    except RecursionError as exc:
        # same root cause (and signature) as the stack-depth clause of the work bound
        return ('violation', f'unbounded-recursion@{_recursing_frame(exc)}', f'RecursionError while {phase}: {str(exc)[:150]}')
    except Exception as exc:  # noqa: BLE001
        return ('violation', exception_signature(phase, exc), repr(exc)[:300])


def _recursing_frame(exc: BaseException) -> str:
    """the exabgp function that recurses (the innermost frame of a RecursionError is wherever the stack ran out)"""
    import traceback
    from collections import Counter

    names = Counter()
    for frame in traceback.extract_tb(exc.__traceback__):
        if frame.filename.startswith(exa.REPO_SRC):
            names[f'{os.path.relpath(frame.filename, exa.REPO_SRC)}:{frame.name}'] += 1
    return names.most_common(1)[0][0] if names else 'outside-exabgp'


# ---------------------------------------------------------------------------- cost proxy and non-trivial counter

INNER_ENTRY = frozenset(['unpack_attribute', 'unpack_nlri', 'unpack_capability', 'make_generic'])


class WorkBudget(BaseException):
    """raised from the profile hook when a decode runs far past its work bound (a loop that does not end); not an Exception
    so that no `except Exception` in the code under test can swallow it"""


class Meter:
    """counts Python function entries ('call' events), the maximum stack depth, and normal returns of the inner decoder entry points.
    Uses sys.monitoring (cheaper: no builtin-call events); falls back to sys.setprofile when the tool id is taken."""

    def __init__(self, budget: int = 0, light: bool = False) -> None:
        self.budget = budget  # function entries after which the run is abandoned (0 = never)
        self.light = light  # count the function entries only (1.5x instead of 2.5x the plain cost): no depth, no inner-object count
        self.calls = 0
        self.depth = 0
        self.max_depth = 0
        self.inner = 0
        self.deep = ''  # the exabgp function that recurses, noted when the depth bound is first crossed

    def _note_recursion(self, frame) -> None:
        from collections import Counter

        names: Counter = Counter()
        while frame is not None:
            fn = frame.f_code.co_filename
            if fn.startswith(exa.REPO_SRC):
                names[f'{os.path.relpath(fn, exa.REPO_SRC)}:{frame.f_code.co_name}'] += 1
            frame = frame.f_back
        self.deep = names.most_common(1)[0][0] if names else 'outside-exabgp'

    def _enter(self, frame_getter) -> None:
        self.calls += 1
        if self.budget and self.calls > self.budget:
            raise WorkBudget()
        self.depth += 1
        if self.depth > self.max_depth:
            self.max_depth = self.depth
            if self.depth == DEPTH_MAX + 1:
                self._note_recursion(frame_getter())

    # -- sys.monitoring callbacks
    def _count(self, code, offset) -> None:
        self.calls += 1
        if self.budget and self.calls > self.budget:
            raise WorkBudget()

    def _start(self, code, offset) -> None:
        self._enter(lambda: sys._getframe(2))

    def _return(self, code, offset, value) -> None:
        self.depth -= 1
        if value is not None and code.co_name in INNER_ENTRY:
            self.inner += 1

    def _leave(self, code, offset, value) -> None:
        self.depth -= 1

    # -- sys.setprofile fallback
    def _profile(self, frame, event, arg) -> None:
        if event == 'call':
            self._enter(lambda: frame)
        elif event == 'return':
            self.depth -= 1
            if arg is not None and frame.f_code.co_name in INNER_ENTRY:
                self.inner += 1

    def run(self, fn, *args):
        mon = getattr(sys, 'monitoring', None)
        tool = None
        if mon is not None:
            try:
                mon.use_tool_id(mon.PROFILER_ID, 'c03-meter')
                tool = mon.PROFILER_ID
            except ValueError:
                tool = None
        if tool is None:
            previous = sys.getprofile()
            sys.setprofile(self._profile)
            try:
                return fn(*args)
            finally:
                sys.setprofile(previous)
        ev = mon.events
        if self.light:
            mon.register_callback(tool, ev.PY_START, self._count)
            mon.register_callback(tool, ev.PY_RESUME, self._count)
            mon.set_events(tool, ev.PY_START | ev.PY_RESUME)
            try:
                return fn(*args)
            finally:
                mon.set_events(tool, 0)
                mon.register_callback(tool, ev.PY_START, None)
                mon.register_callback(tool, ev.PY_RESUME, None)
                mon.free_tool_id(tool)
        mon.register_callback(tool, ev.PY_START, self._start)
        mon.register_callback(tool, ev.PY_RESUME, self._start)
        mon.register_callback(tool, ev.PY_RETURN, self._return)
        mon.register_callback(tool, ev.PY_YIELD, self._leave)
        mon.register_callback(tool, ev.PY_UNWIND, self._leave)
        mon.set_events(tool, ev.PY_START | ev.PY_RESUME | ev.PY_RETURN | ev.PY_YIELD | ev.PY_UNWIND)
        try:
            return fn(*args)
        finally:
            mon.set_events(tool, 0)
            for e in (ev.PY_START, ev.PY_RESUME, ev.PY_RETURN, ev.PY_YIELD, ev.PY_UNWIND):
                mon.register_callback(tool, e, None)
            mon.free_tool_id(tool)


def measured(msg_type: int, body: bytes, negotiated, light: bool = False) -> tuple:
    """(outcome, meter); a run that spends six times its work bound is abandoned: that is how a loop that never ends is reported"""
    meter = Meter(budget=6 * (COST_A + COST_B * len(body)), light=light)
    try:
        outcome = meter.run(decode_and_force, msg_type, body, negotiated)
    except WorkBudget:
        outcome = ('violation', 'cost:calls-superlinear', f'abandoned after {meter.calls} Python calls for a {len(body)} byte body (bound {COST_A}+{COST_B}*len)')
    return outcome, meter


# cost bounds (defined before use at call time): fitted on the qa seed corpus (see props/c03.py fit_report), 10x slack on both constants
COST_A = 10000
COST_B = 600
DEPTH_MAX = 120


def cost_violation(meter: Meter, size: int) -> tuple | None:
    if meter.calls > COST_A + COST_B * size:
        return ('violation', 'cost:calls-superlinear', f'{meter.calls} Python calls for a {size} byte body (bound {COST_A}+{COST_B}*len)')
    if not meter.light and meter.max_depth > DEPTH_MAX:
        return ('violation', f'unbounded-recursion@{meter.deep}', f'stack depth {meter.max_depth} for a {size} byte body (bound {DEPTH_MAX}): one frame per TLV')
    return None


# ---------------------------------------------------------------------------- tolerated signatures (development only)


def known_patterns() -> list[str]:
    return [p.strip() for p in os.environ.get('VERIF_C03_KNOWN', '').split(',') if p.strip()]


def tolerated(signature: str) -> bool:
    return any(fnmatch.fnmatchcase(signature, p) for p in known_patterns())
