"""c13_oracle - what one API record must look like (nothing here imports exabgp)

judge_json(string, written, ...)  / judge_text(string, written, ...)  return a list of Problem(clause, culprit, message).
The property module turns a Problem into a signature `<encoder>:<event kind>:<clause>:<culprit>`.

Documented JSON envelope (reactor/api/response/json.py `_header` + `_neighbor`):
  { "exabgp": str, "time": number, "host": str, "pid": int, "ppid": int, "counter": int, "type": str,
    ["header": hex str, "body": hex str,]
    "neighbor": { "address": { "local": str, "peer": str }, "asn": { "local": int, "peer": int }, ["router-id": str,]
                  ["direction": str,]  ...event... } }
"""

from __future__ import annotations

import ipaddress
import json
import re
from typing import Any


class Problem:
    __slots__ = ('clause', 'culprit', 'message')

    def __init__(self, clause: str, culprit: str, message: str) -> None:
        self.clause = clause
        self.culprit = culprit
        self.message = message

    def __repr__(self) -> str:
        return f'Problem({self.clause}, {self.culprit}, {self.message[:80]})'


class DuplicateKey(ValueError):
    def __init__(self, key: str, keys: list) -> None:
        ValueError.__init__(self, f'duplicate key {key!r} in object with keys {keys[:12]}')
        self.key = key
        self.keys = keys


def _no_duplicates(pairs: list) -> dict:
    seen: dict = {}
    for k, v in pairs:
        if k in seen:
            raise DuplicateKey(k, [p[0] for p in pairs])
        seen[k] = v
    return seen


def strict_loads(text: str) -> Any:
    def refuse(token: str) -> Any:
        raise ValueError(f'non-JSON constant {token}')

    return json.loads(text, object_pairs_hook=_no_duplicates, parse_constant=refuse)


_NUM = re.compile(r'(?<![A-Za-z])(0x[0-9A-Fa-f]+|\d+)')


def norm_key(key: str) -> str:
    """a key with the peer-chosen part taken out: addresses -> <ip>, numbers -> N (ipv4 / l2vpn keep their digit)"""
    try:
        ipaddress.ip_address(key)
        return '<ip>'
    except ValueError:
        pass
    if len(key) > 48:
        return '<long>'
    if any(ord(c) < 0x20 or ord(c) > 0x7E for c in key):
        return '<odd>'
    return _NUM.sub('N', key)


def norm_path(path: list) -> str:
    out = []
    for p in path:
        if isinstance(p, int) or p == '[]':
            continue
        out.append(norm_key(p))
    # the envelope part says nothing about the cause
    while out and out[0] in ('neighbor', 'message', 'update'):
        out.pop(0)
    return '.'.join(out[-4:]) or 'envelope'


def path_at(text: str, pos: int) -> list:
    """keys of the containers open at `pos` (+ the member being written), by a tolerant scan of text[:pos]"""
    stack: list = []
    pending: str | None = None
    last_string: str | None = None
    i = 0
    n = min(pos, len(text))
    while i < n:
        c = text[i]
        if c == '"':
            j = i + 1
            buf = []
            while j < len(text):
                d = text[j]
                if d == '\\':
                    buf.append(text[j : j + 2])
                    j += 2
                    continue
                if d == '"':
                    break
                buf.append(d)
                j += 1
            last_string = ''.join(buf)
            i = j + 1
            if i > n:
                break
            continue
        if c == ':':
            pending = last_string
        elif c in '{[':
            stack.append(pending if pending is not None else '[]')
            pending = None
        elif c in '}]':
            if stack:
                stack.pop()
            pending = None
        elif c == ',':
            pending = None
        i += 1
    return [s for s in stack if s is not None] + ([pending] if pending else [])


def bare_constant_at(text: str) -> int:
    """offset of the first NaN / Infinity outside a string"""
    i = 0
    while i < len(text):
        c = text[i]
        if c == '"':
            i += 1
            while i < len(text) and text[i] != '"':
                i += 2 if text[i] == '\\' else 1
        elif text.startswith(('NaN', 'Infinity', '-Infinity'), i):
            return i
        i += 1
    return 0


def find_duplicate_path(text: str, dup_key: str) -> list:
    """where the object holding the duplicate is: parse leniently, walk, and report the path of the first object with a repeat"""
    found: list = []

    class Node(list):
        pass

    def hook(pairs: list) -> Any:
        return Node(pairs)

    try:
        doc = json.loads(text, object_pairs_hook=hook)
    except ValueError:
        return []

    def walk(node: Any, path: list) -> bool:
        if isinstance(node, Node):
            # innermost first, the order in which the strict parser meets them
            for k, v in node:
                if walk(v, path + [k]):
                    return True
            keys = [k for k, _ in node]
            if len(set(keys)) != len(keys):
                dup = next(k for k in keys if keys.count(k) > 1)
                found.extend(path + [dup])
                return True
        elif isinstance(node, list):
            for idx, v in enumerate(node):
                if walk(v, path + [idx]):
                    return True
        return False

    walk(doc, [])
    return found


def shape(doc: Any, path: tuple = ()) -> set:
    """every key path with the JSON type found there (array positions included: an added element is an added field)"""
    out = set()
    if isinstance(doc, dict):
        out.add((path, 'object'))
        for k, v in doc.items():
            out |= shape(v, path + (k,))
    elif isinstance(doc, list):
        out.add((path, 'array'))
        for i, v in enumerate(doc):
            out |= shape(v, path + (i,))
    elif isinstance(doc, bool):
        out.add((path, 'bool'))
    elif isinstance(doc, (int, float)):
        out.add((path, 'number'))
    elif doc is None:
        out.add((path, 'null'))
    else:
        out.add((path, 'string'))
    return out


def strings_of(doc: Any, keys: list, values: list) -> None:
    if isinstance(doc, dict):
        for k, v in doc.items():
            keys.append(k)
            strings_of(v, keys, values)
    elif isinstance(doc, list):
        for v in doc:
            strings_of(v, keys, values)
    elif isinstance(doc, str):
        values.append(doc)


# ---------------------------------------------------------------------------- written bytes


def judge_written(string: str | None, written: bytes | None, write_error: BaseException | None) -> list:
    if write_error is not None:
        name = type(write_error).__name__
        detail = ''
        if isinstance(write_error, UnicodeEncodeError) and string is not None:
            bad = sorted({c for c in string if ord(c) > 127})[:6]
            detail = ' non-ASCII ' + ' '.join(f'U+{ord(c):04X}' for c in bad)
        return [Problem(f'write-{name}', '', f'Processes.write raised {write_error!r}'[:200] + detail)]
    if string is None:
        return []
    if written is None:
        return [Problem('write-nothing-queued', '', 'Processes.write queued nothing')]
    # the pipe carries ASCII: characters outside it may be escaped by the writer (\\xNN / \\uNNNN), never dropped or raised on
    expected = (string + '\n').encode('ascii', 'backslashreplace')
    if written != expected:
        return [Problem('write-bytes-differ', '', f'queued {written[:80]!r} for {string[:80]!r}')]
    return []


# ---------------------------------------------------------------------------- JSON


EXPECTED_TYPE = {
    'open': 'open',
    'update': 'update',
    'eor': 'update',
    'notification': 'notification',
    'keepalive': 'keepalive',
    'refresh': 'refresh',
    'operational': 'operational',
    'negotiated': 'negotiated',
    'down': 'state',
}
WITH_DIRECTION = ('open', 'update', 'eor', 'notification', 'keepalive', 'refresh', 'operational', 'packets')


def _is_int(v: Any) -> bool:
    return isinstance(v, int) and not isinstance(v, bool)


def judge_envelope(doc: Any, kind: str, mode: str, version: str, has_body: bool) -> list:
    bad: list = []

    def need(cond: bool, what: str) -> None:
        if not cond:
            bad.append(Problem('envelope', what, f'{what} missing or of the wrong type'))

    if not isinstance(doc, dict):
        return [Problem('envelope', 'not-an-object', f'the event is a {type(doc).__name__}')]
    need(isinstance(doc.get('exabgp'), str) and doc.get('exabgp') == version, 'exabgp')
    need(isinstance(doc.get('time'), (int, float)) and not isinstance(doc.get('time'), bool), 'time')
    need(isinstance(doc.get('host'), str), 'host')
    need(_is_int(doc.get('pid')), 'pid')
    need(_is_int(doc.get('ppid')), 'ppid')
    need(_is_int(doc.get('counter')), 'counter')
    need(isinstance(doc.get('type'), str), 'type')
    if kind in EXPECTED_TYPE and isinstance(doc.get('type'), str):
        need(doc['type'] == EXPECTED_TYPE[kind], 'type-value')
    if mode == 'c' and kind != 'packets' and kind in WITH_DIRECTION:
        need(isinstance(doc.get('header'), str) and re.fullmatch(r'(0x)?[0-9A-Fa-f]{38}', doc.get('header', '')) is not None, 'header')
        if has_body:
            need(isinstance(doc.get('body'), str) and re.fullmatch(r'(0x)?[0-9A-Fa-f]*', doc.get('body', '')) is not None, 'body')
    nb = doc.get('neighbor')
    need(isinstance(nb, dict), 'neighbor')
    if isinstance(nb, dict):
        addr, asn = nb.get('address'), nb.get('asn')
        need(isinstance(addr, dict) and isinstance(addr.get('local'), str) and isinstance(addr.get('peer'), str), 'neighbor.address')
        need(isinstance(asn, dict) and _is_int(asn.get('local')) and _is_int(asn.get('peer')), 'neighbor.asn')
        if kind in WITH_DIRECTION:
            need(isinstance(nb.get('direction'), str), 'neighbor.direction')
    return bad


_LINE_BREAKERS = ('\n', '\r', '\u2028', '\u2029', '\x85', '\x0b', '\x0c', '\x1c', '\x1d', '\x1e')


def judge_json(string: str, kind: str, mode: str, version: str, has_body: bool) -> tuple[Any, list]:
    """-> (parsed document or None, problems)"""
    problems: list = []
    body = string[:-1] if string.endswith('\n') else string
    for ch in body:
        o = ord(ch)
        if ch in _LINE_BREAKERS or o < 0x20 or o == 0x7F or 0x80 <= o <= 0x9F:
            where = path_at(body, body.index(ch))
            problems.append(Problem('control-character', norm_path(where), f'U+{o:04X} at offset {body.index(ch)} of the JSON line'))
            break
    try:
        doc = strict_loads(body)
    except DuplicateKey as exc:
        where = find_duplicate_path(body, exc.key)
        if not where:
            # the strict parser met the repeat before it met a syntax error further on: the line is unparseable first
            try:
                json.loads(body)
            except ValueError as later:
                pos = getattr(later, 'pos', 0)
                problems.append(Problem('unparseable', norm_path(path_at(body, pos)), f'{later} near ...{body[max(0, pos - 70) : pos + 50]!r}'))
                return None, problems
        problems.append(Problem('duplicate-key', norm_path(where) if where else norm_key(exc.key), str(exc)[:300]))
        return None, problems
    except ValueError as exc:
        pos = getattr(exc, 'pos', None)
        clause = 'unparseable'
        if pos is None:
            # NaN / Infinity: Python writes and reads them, RFC 8259 has no such number and other parsers refuse the line
            pos = bare_constant_at(body)
            clause = 'non-json-number'
        where = path_at(body, pos)
        problems.append(Problem(clause, norm_path(where), f'{exc} near ...{body[max(0, pos - 70) : pos + 50]!r}'))
        return None, problems
    problems += judge_envelope(doc, kind, mode, version, has_body)
    return doc, problems


def taint_forms(raw: bytes) -> list:
    """the ways a peer string may legitimately show inside a value: as text (UTF-8, undecodable parts replaced,
    CR / LF blanked as notification.py documents for the shutdown communication) or as hex"""
    forms = []
    text = raw.decode('utf-8', 'replace')
    forms.append(text)
    forms.append(text.replace('\r', ' ').replace('\n', ' '))
    forms.append(raw.hex())
    forms.append(raw.hex().upper())
    return forms


def judge_taint(doc: Any, benign_doc: Any, taints: list) -> tuple[list, int]:
    """-> (problems, number of taints visible inside a string value)"""
    problems: list = []
    keys: list = []
    values: list = []
    strings_of(doc, keys, values)
    benign_keys: list = []
    if benign_doc is not None:
        strings_of(benign_doc, benign_keys, [])
    visible = 0
    for t in taints:
        raw = bytes.fromhex(t['hex'])
        if len(raw) < 2:
            continue
        forms = taint_forms(raw)
        texts = [f for f in forms[:2] if len(f.strip()) >= 2]
        for k in keys:
            if k in benign_keys:
                continue
            if any(f in k for f in texts):
                problems.append(Problem('taint-in-key', t['label'], f'peer string {raw[:40]!r} is part of the key {k[:80]!r}'))
                break
        if any(f and f in v for f in forms for v in values):
            visible += 1
    if benign_doc is not None:
        a, b = shape(doc), shape(benign_doc)
        if a != b:
            added = sorted(map(str, a - b))[:4]
            removed = sorted(map(str, b - a))[:4]
            first = next(iter(sorted(a ^ b, key=str)))
            culprit = norm_path(list(first[0]))
            problems.append(Problem('field-forged', culprit, f'with the hostile payload the event has other fields than with a benign one of the same length: added {added} removed {removed}'))
    return problems, visible


# ---------------------------------------------------------------------------- text


def judge_text(string: str, kind: str, lines_expected: int, peer: str, packet_line: bool) -> list:
    problems: list = []
    lines = string.split('\n')
    while lines and lines[-1] == '':
        lines.pop()  # trailing blank lines are not records
    for idx, line in enumerate(lines):
        for ch in line:
            o = ord(ch)
            if o < 0x20 or o == 0x7F or 0x80 <= o <= 0x9F or ch in ('\u2028', '\u2029'):
                problems.append(Problem('control-character', text_culprit(line, line.index(ch)), f'U+{o:04X} in line {idx}: {line[:160]!r}'))
                break
        else:
            continue
        break
    if any(line == '' for line in lines):
        problems.append(Problem('blank-line', '', f'an empty line inside the event: {string[:200]!r}'))
    if len(lines) != lines_expected:
        problems.append(Problem('line-count', '', f'{len(lines)} lines, {lines_expected} expected: {string[:300]!r}'))
    prefix = f'neighbor {peer} '
    for idx, line in enumerate(lines):
        if line.startswith(prefix):
            continue
        if kind in ('update', 'eor') and packet_line and idx == len(lines) - 2 and re.fullmatch(r' header (0x)?[0-9A-Fa-f]+( body (0x)?[0-9A-Fa-f]+)?', line):
            continue  # the documented raw packet line of a consolidated update
        problems.append(Problem('line-prefix', '', f'line {idx} does not start with {prefix!r}: {line[:160]!r}'))
        break
    return problems


_WORD = re.compile(r'([A-Za-z][A-Za-z0-9_-]{2,})[ (:\[]')

# what introduces a value in the text renderings (capabilities, attributes by their text name, BGP-LS TLV names)
VOCABULARY = [
    'hostname(', 'software(', 'unknown capability', 'multiprotocol(', 'graceful restart', 'addpath', 'multisession',
    'advisory "', 'node name:', 'link name:', 'policy-name "', 'candidate-path-name "', 'opaque', 'bgp-ls', 'bgp-prefix-sid', 'attribute [', 'pmsi', 'tunnel-encap', 'aigp',
    'extended-community', 'large-community', 'community', 'as-path', 'aggregator', 'cluster-list', 'originator-id', 'origin',
    'local-preference', 'med', 'next-hop', 'label', 'rd ', 'path-information', 'flow', 'evpn', 'vpls', 'mup', 'mvpn', 'sr-policy', 'srv6',
]


def text_culprit(line: str, pos: int) -> str:
    """the last value introducer before `pos`: which rendering let the character through"""
    head = line[:pos].lower()
    best, where = '', -1
    for token in VOCABULARY:
        at = head.rfind(token)
        if at > where:
            best, where = token, at
    if best:
        return best.strip(' (:["').replace(' ', '-')
    words = _WORD.findall(line[:pos])
    skip = {'neighbor', 'receive', 'send', 'update', 'announced', 'withdrawn'}
    for w in reversed(words):
        if w.lower() not in skip:
            return w.lower()
    return ''


# the hostile engine knows which string it put where: its labels, under the names the vocabulary gives the same renderings
CANON = {
    'hostname': 'hostname',
    'domainname': 'hostname',
    'software-version': 'software',
    'operational-advisory': 'advisory',
    'bgpls-node-name': 'node-name',
    'bgpls-link-name': 'link-name',
    'sr-policy-name': 'policy-name',
    'sr-candidate-path-name': 'candidate-path-name',
}


def non_ascii_culprit(string: str, taints: list | None = None) -> str:
    for line in string.split('\n'):
        for i, ch in enumerate(line):
            if ord(ch) > 127:
                texts = [(t['label'], bytes.fromhex(t['hex']).decode('utf-8', 'replace').lower()) for t in taints or []]
                for width in (8, 4, 2, 1, 0):
                    window = line[max(0, i - width) : i + 1].lower()
                    hits = {CANON.get(label, label) for label, text in texts if window in text}
                    if len(hits) == 1:
                        return hits.pop()
                return text_culprit(line, i)
    return ''
