"""refwire.build - writes wire bytes from semantic values with explicit struct layouts.

Deliberately shares no code with codec.py (separate reader / writer so the pair cannot agree
with itself by construction).  Imports nothing from exabgp.
"""

from __future__ import annotations

import ipaddress
import struct

MARKER = b'\xff' * 16


def message(msg_type: int, body: bytes) -> bytes:
    return MARKER + struct.pack('!H', 19 + len(body)) + bytes([msg_type]) + body


# ---------------------------------------------------------------------------- OPEN


def capability(code: int, value: bytes) -> bytes:
    return bytes([code, len(value)]) + value


def cap_mp(afi: int, safi: int) -> bytes:
    return capability(1, struct.pack('!HBB', afi, 0, safi))


def cap_asn4(asn: int) -> bytes:
    return capability(65, struct.pack('!L', asn))


def cap_addpath(entries: list[tuple[int, int, int]]) -> bytes:
    return capability(69, b''.join(struct.pack('!HBB', a, s, b) for a, s, b in entries))


def cap_ext_nh(entries: list[tuple[int, int, int]]) -> bytes:
    return capability(5, b''.join(struct.pack('!HHH', a, s, n) for a, s, n in entries))


def cap_refresh() -> bytes:
    return capability(2, b'')


def cap_erefresh() -> bytes:
    return capability(70, b'')


def cap_ext_msg() -> bytes:
    return capability(6, b'')


def cap_gr(flags: int, restart_time: int, fams: list[tuple[int, int, int]]) -> bytes:
    return capability(64, struct.pack('!H', ((flags & 0xF) << 12) | (restart_time & 0xFFF)) + b''.join(struct.pack('!HBB', a, s, f) for a, s, f in fams))


def cap_hostname(host: bytes, domain: bytes) -> bytes:
    return capability(73, bytes([len(host)]) + host + bytes([len(domain)]) + domain)


def open_body(version: int, asn2: int, hold: int, router_id: int, params: list[tuple[int, bytes]], extended: bool | None = None) -> bytes:
    """params: list of (type, value).  extended None => use RFC 9072 form only when needed"""
    plain = b''.join(bytes([t, len(v)]) + v for t, v in params if len(v) < 256)
    need_ext = any(len(v) > 255 for _, v in params) or sum(2 + len(v) for _, v in params) > 255
    if extended is None:
        extended = need_ext
    head = struct.pack('!BHHL', version, asn2, hold, router_id)
    if not extended:
        if need_ext:
            raise ValueError('parameters do not fit the classic form')
        return head + bytes([len(plain)]) + plain
    ext = b''.join(bytes([t]) + struct.pack('!H', len(v)) + v for t, v in params)
    return head + b'\xff\xff' + struct.pack('!H', len(ext)) + ext


def open_with_caps(asn2: int, hold: int, router_id: int, caps: list[bytes], grouping: str = 'each', version: int = 4, extended: bool | None = None) -> bytes:
    """grouping: 'each' = one optional parameter per capability, 'one' = all in a single parameter"""
    if grouping == 'one':
        params = [(2, b''.join(caps))] if caps else []
    else:
        params = [(2, c) for c in caps]
    return open_body(version, asn2, hold, router_id, params, extended)


# ---------------------------------------------------------------------------- NLRI


def prefix_bytes(prefix: str) -> tuple[int, bytes]:
    net = ipaddress.ip_network(prefix, strict=False)
    bits = net.prefixlen
    return bits, net.network_address.packed[: (bits + 7) // 8]


def label_stack(labels: list[int], bos: bool = True) -> bytes:
    out = b''
    for i, lab in enumerate(labels):
        raw = lab << 4
        if bos and i == len(labels) - 1:
            raw |= 1
        out += raw.to_bytes(3, 'big')
    return out


def nlri(entry: dict, addpath: bool) -> bytes:
    """entry: prefix, optional path_id, labels, rd (hex)"""
    bits, pfx = prefix_bytes(entry['prefix'])
    out = b''
    if addpath:
        out += struct.pack('!L', entry.get('path_id') or 0)
    inner = b''
    if 'labels' in entry:
        stack = label_stack(entry['labels'])
        inner += stack
        bits += 8 * len(stack)
    if entry.get('rd') is not None:
        inner += bytes.fromhex(entry['rd'])
        bits += 64
    return out + bytes([bits]) + inner + pfx


# ---------------------------------------------------------------------------- attributes


def attribute(flags: int, code: int, value: bytes, force_extended: bool = False) -> bytes:
    if len(value) > 255 or force_extended:
        return bytes([flags | 0x10, code]) + struct.pack('!H', len(value)) + value
    return bytes([flags & ~0x10 & 0xFF, code, len(value)]) + value


def aspath(segs: list[tuple[int, list[int]]], asn4: bool) -> bytes:
    fmt = '!L' if asn4 else '!H'
    out = b''
    for stype, asns in segs:
        out += bytes([stype, len(asns)]) + b''.join(struct.pack(fmt, a) for a in asns)
    return out


def ip(addr: str) -> bytes:
    return ipaddress.ip_address(addr).packed


def mp_nexthop(safi: int, hops: list[str]) -> bytes:
    out = b''
    for h in hops:
        if safi == 128:
            out += bytes(8)
        out += ip(h)
    return out


def mp_reach(afi: int, safi: int, hops: list[str], entries: list[dict], addpath: bool) -> bytes:
    nh = mp_nexthop(safi, hops)
    return struct.pack('!HBB', afi, safi, len(nh)) + nh + b'\x00' + b''.join(nlri(e, addpath) for e in entries)


def mp_unreach(afi: int, safi: int, entries: list[dict], addpath: bool) -> bytes:
    return struct.pack('!HB', afi, safi) + b''.join(nlri(e, addpath) for e in entries)


def update_body(withdrawn: bytes, attrs: bytes, announced: bytes) -> bytes:
    return struct.pack('!H', len(withdrawn)) + withdrawn + struct.pack('!H', len(attrs)) + attrs + announced


def notification(code: int, subcode: int, data: bytes = b'') -> bytes:
    return bytes([code, subcode]) + data


def route_refresh(afi: int, safi: int, subtype: int = 0) -> bytes:
    return struct.pack('!HBB', afi, subtype, safi)
