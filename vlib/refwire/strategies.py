"""refwire.strategies - Hypothesis strategies for well-formed wire data (JSON-able descriptions + byte renderers)

An UPDATE description is a dict:
  session: {asn4, addpath: [[afi,safi]...] (families for which path ids are on the wire), families: [[afi,safi]...]}
  withdrawn / nlri: IPv4 unicast entries
  attrs: ordered list of attribute descriptions {code, flags, ext (force extended length), v (semantic value)}
         MP_REACH value: {afi,safi,hops:[..],entries:[..]}   MP_UNREACH value: {afi,safi,entries:[..]}
render_update(desc) -> body bytes.  Nothing here imports exabgp.
"""

from __future__ import annotations

import ipaddress
import struct

from hypothesis import strategies as st

from vlib.refwire import build

IP_FAMILIES = [(1, 1), (1, 2), (1, 4), (1, 128), (2, 1), (2, 4), (2, 128)]

v4 = st.one_of(st.sampled_from(['1.2.3.4', '10.0.0.1', '192.0.2.1', '255.255.255.254']), st.integers(0x01000001, 0xDFFFFFFE).map(lambda n: str(ipaddress.IPv4Address(n))))
v6 = st.one_of(st.sampled_from(['2001:db8::1', '2001:db8::ffff']), st.integers(0x2001 << 112, (0x2002 << 112) - 1).map(lambda n: str(ipaddress.IPv6Address(n))))
v6_ll = st.integers(0xFE80 << 112, (0xFE80 << 112) + 0xFFFFFFFF).map(lambda n: str(ipaddress.IPv6Address(n)))

asn2 = st.one_of(st.sampled_from([1, 100, 23456, 64512, 65000, 65535]), st.integers(1, 65535))
asn4 = st.one_of(asn2, st.sampled_from([65536, 70000, 4200000000, 4294967295]), st.integers(65536, 2**32 - 1))


@st.composite
def prefix(draw, afi):
    if afi == 1:
        bits = draw(st.sampled_from([0, 1, 8, 9, 16, 17, 24, 24, 24, 25, 31, 32]))
        n = draw(st.integers(0x01000000, 0xDFFFFFFF))
        n &= (0xFFFFFFFF << (32 - bits)) & 0xFFFFFFFF if bits else 0
        return f'{ipaddress.IPv4Address(n)}/{bits}'
    bits = draw(st.sampled_from([0, 16, 32, 48, 56, 64, 64, 65, 127, 128]))
    n = draw(st.integers(0x2001 << 112, (0x2002 << 112) - 1))
    n &= (((1 << 128) - 1) ^ ((1 << (128 - bits)) - 1)) if bits else 0
    return f'{ipaddress.IPv6Address(n)}/{bits}'


@st.composite
def entry(draw, afi, safi, addpath, small_universe=None):
    if small_universe:
        e = {'prefix': draw(st.sampled_from(small_universe))}
    else:
        e = {'prefix': draw(prefix(afi))}
    if addpath:
        e['path_id'] = draw(st.sampled_from([0, 1, 2, 7, 65536, 2**32 - 1]))
    if safi in (4, 128):
        e['labels'] = draw(st.lists(st.sampled_from([16, 17, 100, 1000, 1048575]), min_size=1, max_size=2))
    if safi == 128:
        kind = draw(st.sampled_from([0, 1, 2]))
        if kind == 0:
            e['rd'] = struct.pack('!HHL', 0, draw(asn2), draw(st.integers(0, 2**32 - 1))).hex()
        elif kind == 1:
            e['rd'] = (struct.pack('!H', 1) + ipaddress.IPv4Address(draw(v4)).packed + struct.pack('!H', draw(st.integers(0, 65535)))).hex()
        else:
            e['rd'] = struct.pack('!HLH', 2, draw(asn4), draw(st.integers(0, 65535))).hex()
    return e


def entry_key(e):
    # the label stack is not part of a route's identity (RFC 8277 2.4)
    return (e['prefix'], e.get('path_id'), e.get('rd'))


@st.composite
def path_segments(draw, asn, allow_confed=True, max_segs=3):
    segs = []
    for _ in range(draw(st.integers(0, max_segs))):
        t = draw(st.sampled_from([2, 2, 2, 1, 3, 4] if allow_confed else [2, 2, 2, 1]))
        segs.append([t, draw(st.lists(asn, min_size=1, max_size=5))])
    return segs


@st.composite
def sessions(draw):
    fams = draw(st.lists(st.sampled_from(IP_FAMILIES), min_size=1, max_size=5, unique=True))
    fams = [list(f) for f in sorted(set(map(tuple, fams)) | ({(1, 1)} if draw(st.booleans()) else set()))]
    ap = [f for f in fams if tuple(f) in [(1, 1), (2, 1), (1, 4), (2, 4), (1, 128), (2, 128)] and draw(st.booleans())] if draw(st.booleans()) else []
    out = {'asn4': draw(st.booleans()), 'families': fams, 'addpath': ap, 'peer_as': draw(st.sampled_from([65000, 65001, 70000]))}
    # (exabgp only offers the capability for a family whose IPv6 twin is configured too: documented precondition)
    v4 = [f for f in fams if f[0] == 1 and [2, f[1]] in fams]
    if v4 and draw(st.integers(0, 2)) == 0:
        # RFC 8950: IPv4 NLRI of these families may come with an IPv6 next hop
        out['extnh'] = [f for f in v4 if draw(st.booleans())] or v4[:1]
    return out


def has_ap(session, afi, safi):
    return [afi, safi] in session['addpath']


@st.composite
def updates(draw, session=None, mp_only_ip=True):
    s = session or draw(sessions())
    fams = [tuple(f) for f in s['families']]
    desc = {'session': s, 'withdrawn': [], 'nlri': [], 'attrs': []}
    if draw(st.integers(0, 19)) == 0:
        # a valid UPDATE that carries attributes but no route at all (not an End-of-RIB: the attribute block is not empty)
        kind = draw(st.sampled_from(['unknown-nt', 'unknown-t', 'origin']))
        if kind == 'unknown-nt':
            desc['attrs'] = [{'code': 0x64, 'flags': 0x80, 'v': draw(st.binary(max_size=6)).hex()}]
        elif kind == 'unknown-t':
            desc['attrs'] = [{'code': 0x63, 'flags': 0xC0, 'v': draw(st.binary(max_size=6)).hex()}]
        else:
            desc['attrs'] = [{'code': 1, 'flags': 0x40, 'v': 0}, {'code': 2, 'flags': 0x40, 'v': []}]
        desc['order'] = 'attributes-only'
        return desc
    announces_v4 = (1, 1) in fams and draw(st.booleans())
    if (1, 1) in fams and draw(st.integers(0, 3)) == 0:
        desc['withdrawn'] = draw(st.lists(entry(1, 1, has_ap(s, 1, 1)), min_size=1, max_size=5, unique_by=entry_key))
    if announces_v4:
        desc['nlri'] = draw(st.lists(entry(1, 1, has_ap(s, 1, 1)), min_size=1, max_size=8, unique_by=entry_key))
        if desc['withdrawn'] and draw(st.integers(0, 3)) == 0:
            # the same prefix in WITHDRAWN ROUTES and NLRI (RFC 4271 4.3: announce wins)
            desc['withdrawn'].append(dict(desc['nlri'][0]))
    mp_fams = [f for f in fams if f != (1, 1) or draw(st.integers(0, 5)) == 0]
    reach = None
    unreach = None
    if mp_fams and draw(st.booleans()):
        afi, safi = draw(st.sampled_from(mp_fams))
        six = afi == 2 or ([afi, safi] in s.get('extnh', []) and draw(st.integers(0, 3)) != 0)
        hops = [draw(v4)] if not six else ([draw(v6)] + ([draw(v6_ll)] if (safi != 128 and draw(st.integers(0, 3)) == 0) else []))
        n = draw(st.sampled_from([1, 1, 2, 3, 8, 40]))
        reach = {'afi': afi, 'safi': safi, 'hops': hops, 'entries': draw(st.lists(entry(afi, safi, has_ap(s, afi, safi)), min_size=1, max_size=n, unique_by=entry_key))}
    if mp_fams and draw(st.integers(0, 2)) == 0:
        afi, safi = draw(st.sampled_from(mp_fams))
        unreach = {'afi': afi, 'safi': safi, 'entries': draw(st.lists(entry(afi, safi, has_ap(s, afi, safi)), min_size=1, max_size=6, unique_by=entry_key))}
    # a prefix announced and withdrawn through *different* fields of one UPDATE has no RFC-defined reading: never generated
    ann = {(1, 1) + entry_key(e) for e in desc['nlri']} | ({(reach['afi'], reach['safi']) + entry_key(e) for e in reach['entries']} if reach else set())
    if unreach:
        unreach['entries'] = [e for e in unreach['entries'] if (unreach['afi'], unreach['safi']) + entry_key(e) not in ann]
        if not unreach['entries']:
            unreach = None
    if reach and (reach['afi'], reach['safi']) == (1, 1):
        keep = {(1, 1) + entry_key(e) for e in reach['entries']}
        desc['withdrawn'] = [e for e in desc['withdrawn'] if (1, 1) + entry_key(e) not in keep]
    announcing = bool(desc['nlri'] or reach)
    attrs = []
    if announcing:
        asn = asn4 if s['asn4'] else asn2
        attrs.append({'code': 1, 'flags': 0x40, 'v': draw(st.integers(0, 2))})
        path = draw(path_segments(asn))
        attrs.append({'code': 2, 'flags': 0x40, 'v': path})
        if desc['nlri']:
            attrs.append({'code': 3, 'flags': 0x40, 'v': draw(v4)})
        if draw(st.booleans()):
            attrs.append({'code': 4, 'flags': 0x80, 'v': draw(st.sampled_from([0, 1, 100, 2**32 - 1]))})
        if draw(st.booleans()):
            attrs.append({'code': 5, 'flags': 0x40, 'v': draw(st.sampled_from([0, 100, 200, 2**32 - 1]))})
        if draw(st.integers(0, 3)) == 0:
            attrs.append({'code': 6, 'flags': 0x40, 'v': True})
        if draw(st.integers(0, 3)) == 0:
            attrs.append({'code': 7, 'flags': 0xC0, 'v': [draw(asn), draw(v4)]})
        if draw(st.integers(0, 2)) == 0:
            attrs.append({'code': 8, 'flags': 0xC0, 'v': draw(st.lists(st.one_of(st.sampled_from([0xFFFFFF01, 0xFFFFFF02, 0x00010002, 0]), st.integers(0, 2**32 - 1)), min_size=1, max_size=6, unique=True))})
        if draw(st.integers(0, 3)) == 0:
            attrs.append({'code': 9, 'flags': 0x80, 'v': draw(v4)})
            attrs.append({'code': 10, 'flags': 0x80, 'v': draw(st.lists(v4, min_size=1, max_size=3))})
        if draw(st.integers(0, 2)) == 0:
            ecs = draw(st.lists(st.one_of(
                st.tuples(st.just(0), st.sampled_from([2, 3]), asn2, st.integers(0, 2**32 - 1)).map(lambda t: (bytes([t[0], t[1]]) + struct.pack('!HL', t[2], t[3])).hex()),
                st.tuples(st.just(1), st.sampled_from([2, 3]), v4, st.integers(0, 65535)).map(lambda t: (bytes([t[0], t[1]]) + ipaddress.IPv4Address(t[2]).packed + struct.pack('!H', t[3])).hex()),
                st.tuples(st.just(2), st.sampled_from([2, 3]), asn4, st.integers(0, 65535)).map(lambda t: (bytes([t[0], t[1]]) + struct.pack('!LH', t[2], t[3])).hex()),
            ), min_size=1, max_size=4, unique=True))
            attrs.append({'code': 16, 'flags': 0xC0, 'v': ecs})
        if draw(st.integers(0, 2)) == 0:
            attrs.append({'code': 32, 'flags': 0xC0, 'v': draw(st.lists(st.tuples(st.integers(0, 2**32 - 1), st.integers(0, 2**32 - 1), st.integers(0, 2**32 - 1)).map(list), min_size=1, max_size=3, unique_by=tuple))})
        if not s['asn4'] and draw(st.integers(0, 1)) == 0:
            # a NEW speaker behind the OLD peer: AS4_PATH tells the true path for the trailing part of AS_PATH
            as4 = draw(path_segments(asn4, allow_confed=False, max_segs=2))
            if as4:
                attrs.append({'code': 17, 'flags': 0xC0 | (0x20 if draw(st.booleans()) else 0), 'v': as4})
        if draw(st.integers(0, 3)) == 0:
            attrs.append({'code': draw(st.sampled_from([0x63, 0x99, 0xF0])), 'flags': 0xC0 | (0x20 if draw(st.booleans()) else 0), 'v': draw(st.binary(max_size=10)).hex()})
        if draw(st.integers(0, 3)) == 0:
            attrs.append({'code': draw(st.sampled_from([0x64, 0x9A, 0xF1])), 'flags': 0x80, 'v': draw(st.binary(max_size=10)).hex()})
    if reach:
        attrs.append({'code': 14, 'flags': 0x80, 'v': reach})
    if unreach:
        attrs.append({'code': 15, 'flags': 0x80, 'v': unreach})
    if not (desc['withdrawn'] or desc['nlri'] or reach or unreach):
        # nothing drawn: make it a plain withdraw or announce so the message is not an accidental End-of-RIB
        if (1, 1) in fams:
            desc['withdrawn'] = [draw(entry(1, 1, has_ap(s, 1, 1)))]
        else:
            afi, safi = fams[0]
            attrs.append({'code': 15, 'flags': 0x80, 'v': {'afi': afi, 'safi': safi, 'entries': [draw(entry(afi, safi, has_ap(s, afi, safi)))]}})
    mode = draw(st.sampled_from(['sorted', 'sorted', 'permuted', 'mp-first']))
    if mode == 'permuted':
        attrs = list(draw(st.permutations(attrs)))
    elif mode == 'mp-first':
        attrs = [a for a in attrs if a['code'] in (14, 15)] + [a for a in attrs if a['code'] not in (14, 15)]
    else:
        attrs = sorted(attrs, key=lambda a: a['code'])
    for a in attrs:
        if draw(st.integers(0, 5)) == 0:
            a['ext'] = True
    desc['attrs'] = attrs
    desc['order'] = mode
    return desc


def attr_value_bytes(a: dict, session: dict) -> bytes:
    code, v = a['code'], a['v']
    if code == 1:
        return bytes([v])
    if code == 2:
        return build.aspath([(t, x) for t, x in v], session['asn4'])
    if code == 17:
        return build.aspath([(t, x) for t, x in v], True)
    if code in (3, 9):
        return build.ip(v)
    if code in (4, 5):
        return struct.pack('!L', v)
    if code == 6:
        return b''
    if code == 7:
        return struct.pack('!L' if session['asn4'] else '!H', v[0]) + build.ip(v[1])
    if code == 18:
        return struct.pack('!L', v[0]) + build.ip(v[1])
    if code == 8:
        return b''.join(struct.pack('!L', c) for c in v)
    if code == 10:
        return b''.join(build.ip(x) for x in v)
    if code == 16:
        return b''.join(bytes.fromhex(x) for x in v)
    if code == 32:
        return b''.join(struct.pack('!LLL', *x) for x in v)
    if code == 26:
        return b'\x01\x00\x0b' + struct.pack('!Q', v)
    if code == 14:
        return build.mp_reach(v['afi'], v['safi'], v['hops'], v['entries'], has_ap(session, v['afi'], v['safi']))
    if code == 15:
        return build.mp_unreach(v['afi'], v['safi'], v['entries'], has_ap(session, v['afi'], v['safi']))
    return bytes.fromhex(v)


def render_attrs(desc: dict) -> bytes:
    out = b''
    for a in desc['attrs']:
        if 'raw' in a:
            out += bytes.fromhex(a['raw'])
            continue
        out += build.attribute(a['flags'], a['code'], attr_value_bytes(a, desc['session']), a.get('ext', False))
    return out


def render_update(desc: dict) -> bytes:
    s = desc['session']
    w = b''.join(build.nlri(e, has_ap(s, 1, 1)) for e in desc['withdrawn'])
    n = b''.join(build.nlri(e, has_ap(s, 1, 1)) for e in desc['nlri'])
    return build.update_body(w, render_attrs(desc), n)


def eor_body(afi: int, safi: int) -> bytes:
    if (afi, safi) == (1, 1):
        return b'\x00\x00\x00\x00'
    return build.update_body(b'', build.attribute(0x80, 15, struct.pack('!HB', afi, safi)), b'')


def peer_open_for(session: dict, extra_caps: list[bytes] | None = None, ext_msg: bool = False) -> bytes:
    """the peer OPEN that leads to this session (we are configured to match)"""
    caps = [build.cap_mp(a, sf) for a, sf in session['families']]
    if session['asn4']:
        caps.append(build.cap_asn4(session['peer_as']))
    if session['addpath']:
        caps.append(build.cap_addpath([(a, sf, 3) for a, sf in session['addpath']]))
    if ext_msg:
        caps.append(build.cap_ext_msg())
    if session.get('extnh'):
        caps.append(build.cap_ext_nh([(a, sf, 2) for a, sf in session['extnh']]))
    caps += extra_caps or []
    asn2v = session['peer_as'] if session['peer_as'] <= 65535 else 23456
    return build.open_with_caps(asn2v, 90, 0x0A000002, caps)
