"""refwire.flow - FlowSpec NLRI and traffic-action reader and, separately, byte builders.

Written from the figures of RFC 8955 (IPv4 FlowSpec, section 4 NLRI, section 7 actions, section 8 VPN)
and RFC 8956 (IPv6: prefix offset, flow label, rt-redirect-ipv6).  Imports nothing from exabgp.

NLRI (RFC 8955 4.1):   +--------------------+--------------------+
                       | length (0xnn or 0xfnnn) | NLRI value (variable) |
  length < 240 in one octet, otherwise two octets whose most significant nibble is 0xf (up to 4095).
VPN NLRI (RFC 8955 8): the value starts with an 8 octet route distinguisher.

numeric_op (4.2.1.1)   0   1   2   3   4   5   6   7          bitmask_op (4.2.1.2)  0   1   2   3   4   5   6   7
                     +---+---+---+---+---+---+---+---+                            +---+---+---+---+---+---+---+---+
                     | e | a |  len  | 0 |lt |gt |eq |                            | e | a |  len  | 0 | 0 |not| m |
                     +---+---+---+---+---+---+---+---+                            +---+---+---+---+---+---+---+---+
  e = end of list (set in the last {op, value} pair of the component and only there), a = AND with the previous
  pair (treated as unset on the first pair), value length = 1 << len octets.

The reader is strict: anything the RFCs call malformed raises Malformed with a `kind`.
The builders (second half of the file) share no code with the reader.
"""

from __future__ import annotations

import ipaddress
import struct

from vlib.refwire.codec import Malformed as _CodecMalformed

AFI_IPV4, AFI_IPV6 = 1, 2

# component types (RFC 8955 4.2.2.x, RFC 8956 3.x)
DEST, SRC, PROTO, PORT, DPORT, SPORT, ICMP_TYPE, ICMP_CODE, TCP_FLAGS, PKT_LEN, DSCP, FRAGMENT, FLOW_LABEL = range(1, 14)

PREFIX_TYPES = (DEST, SRC)
BITMASK_TYPES = (TCP_FLAGS, FRAGMENT)
DEFINED = {AFI_IPV4: tuple(range(1, 13)), AFI_IPV6: tuple(range(1, 14))}

# value widths a sender may use.  Only the MUST-level restrictions of the RFCs are applied:
# DSCP "MUST be encoded as single octet", fragment "MUST be encoded as 1-octet bitmask", TCP flags "1- or 2-octet".
# (Types 3, 7, 8 SHOULD be one octet, 4, 5, 6, 10 SHOULD be one or two, 13 SHOULD be four: SHOULD is not enforced.)
MUST_WIDTHS = {DSCP: (1,), FRAGMENT: (1,), TCP_FLAGS: (1, 2)}


def allowed_widths(ctype: int) -> tuple:
    return MUST_WIDTHS.get(ctype, (1, 2, 4, 8))


def shortest_width(ctype: int, value: int) -> int | None:
    """the smallest width allowed for this component which holds the value (None: it cannot be encoded)"""
    for w in allowed_widths(ctype):
        if value < (1 << (8 * w)):
            return w
    return None


class Malformed(_CodecMalformed):
    def __init__(self, kind: str, text: str = '') -> None:
        _CodecMalformed.__init__(self, f'{kind}: {text}' if text else kind)
        self.kind = kind


# ============================================================================ reader


def read_length(data: bytes) -> tuple[int, int]:
    """(length of the NLRI value, octets used by the length field)"""
    if len(data) < 1:
        raise Malformed('length-missing')
    first = data[0]
    if first < 0xF0:
        return first, 1
    if len(data) < 2:
        raise Malformed('length-truncated')
    return ((first & 0x0F) << 8) | data[1], 2


def split_nlris(data: bytes) -> list[bytes]:
    """cut the NLRI field of MP_REACH/MP_UNREACH into complete NLRIs (length field included)"""
    out = []
    pos = 0
    while pos < len(data):
        n, h = read_length(data[pos:])
        if pos + h + n > len(data):
            raise Malformed('length-overrun', f'{n} announced, {len(data) - pos - h} present')
        out.append(data[pos : pos + h + n])
        pos += h + n
    return out


def _v4_prefix(body: bytes, pos: int) -> tuple[dict, int]:
    if pos >= len(body):
        raise Malformed('truncated', 'prefix length missing')
    bits = body[pos]
    if bits > 32:
        raise Malformed('prefix-length', str(bits))
    n = (bits + 7) // 8
    raw = body[pos + 1 : pos + 1 + n]
    if len(raw) != n:
        raise Malformed('truncated', 'prefix')
    value = int.from_bytes(raw + bytes(4 - n), 'big')
    keep = (0xFFFFFFFF << (32 - bits)) & 0xFFFFFFFF if bits else 0
    net = ipaddress.IPv4Address(value & keep)
    return {'prefix': f'{net}/{bits}', 'offset': 0, 'padding': value & ~keep & 0xFFFFFFFF}, pos + 1 + n


def _v6_prefix(body: bytes, pos: int, layout: str) -> tuple[dict, int]:
    """RFC 8956 3.1: <length, offset, pattern, padding>, the pattern holds length - offset bits.

    layout 'whole-prefix' is NOT the RFC: it reads ceil(length / 8) octets holding the address from bit 0
    (the layout of the early flow-spec-v6 drafts).  It exists only so that a check can name that deviation.
    """
    if pos + 1 >= len(body):
        raise Malformed('truncated', 'prefix length/offset missing')
    bits, offset = body[pos], body[pos + 1]
    if bits > 128:
        raise Malformed('prefix-length', str(bits))
    if not (bits == 0 and offset == 0) and not offset < bits:
        raise Malformed('prefix-offset', f'{offset} >= {bits}')
    if layout == 'whole-prefix':
        n = (bits + 7) // 8
        raw = body[pos + 2 : pos + 2 + n]
        if len(raw) != n:
            raise Malformed('truncated', 'prefix')
        whole = int.from_bytes(raw + bytes(16 - n), 'big')
    else:
        pbits = bits - offset
        n = (pbits + 7) // 8
        raw = body[pos + 2 : pos + 2 + n]
        if len(raw) != n:
            raise Malformed('truncated', 'prefix pattern')
        # the pattern is left aligned in its octets; in the address it starts at bit `offset`
        pattern = int.from_bytes(raw, 'big') << (128 - 8 * n) if n else 0
        whole = pattern >> offset
    full = (1 << 128) - 1
    keep = (full << (128 - bits)) & full & (full >> offset) if bits else 0
    net = ipaddress.IPv6Address(whole & keep)
    if layout == 'whole-prefix':
        padding = whole & ~(full << (128 - bits)) & full if bits else whole  # bits after `length`
    else:
        padding = whole & ~keep & full
    return {'prefix': f'{net}/{bits}', 'offset': offset, 'padding': padding}, pos + 2 + n


def _operations(body: bytes, pos: int, ctype: int, count: int | None = None) -> tuple[list[dict], int]:
    """the {operator, value} pairs of one component up to its end-of-list bit.

    With `count` the reader takes exactly that many pairs and only reports the end-of-list bits: a check which knows
    how many tests were written uses it to say which bit is wrong instead of losing its place in the octets.
    """
    terms: list[dict] = []
    bitmask = ctype in BITMASK_TYPES
    while True:
        if pos >= len(body):
            raise Malformed('missing-end-of-list', f'component {ctype} after {len(terms)} pairs')
        op = body[pos]
        pos += 1
        width = 1 << ((op >> 4) & 0x3)
        raw = body[pos : pos + width]
        if len(raw) != width:
            raise Malformed('truncated', f'component {ctype}: {width} octet value, {len(raw)} left')
        pos += width
        if width not in allowed_widths(ctype):
            raise Malformed('value-width', f'component {ctype} in {width} octets')
        terms.append(
            {
                'eol': op >> 7,
                'and': (op >> 6) & 1,
                'width': width,
                'op': op & (0x03 if bitmask else 0x07),
                'reserved': op & (0x0C if bitmask else 0x08),
                'value': int.from_bytes(raw, 'big'),
            }
        )
        if count is None and op & 0x80:
            return terms, pos
        if count is not None and len(terms) == count:
            return terms, pos


def decode_body(body: bytes, afi: int, vpn: bool = False, ordered: bool = True, ipv6_layout: str = 'rfc8956', counts: dict | None = None) -> dict:
    """the rule inside one NLRI value: {'rd': hex|None, 'components': [{'type', 'prefix', 'offset'} | {'type', 'terms'}]}

    counts ({component type: number of pairs}) switches the operator components to the guided reading of _operations.
    """
    pos = 0
    rd = None
    if vpn:
        if len(body) < 8:
            raise Malformed('truncated', 'route distinguisher')
        rd = body[:8].hex()
        pos = 8
    comps: list[dict] = []
    last = 0
    while pos < len(body):
        ctype = body[pos]
        pos += 1
        if ctype not in DEFINED[afi]:
            raise Malformed('undefined-component', f'type {ctype} for afi {afi}')
        if ordered and ctype <= last:
            raise Malformed('component-order', f'{ctype} after {last}')
        last = ctype
        if ctype in PREFIX_TYPES:
            if afi == AFI_IPV4:
                entry, pos = _v4_prefix(body, pos)
            else:
                entry, pos = _v6_prefix(body, pos, ipv6_layout)
            entry['type'] = ctype
        else:
            terms, pos = _operations(body, pos, ctype, counts.get(ctype) if counts else None)
            entry = {'type': ctype, 'terms': terms}
        comps.append(entry)
    return {'rd': rd, 'components': comps}


def decode_flow(nlri: bytes, afi: int, vpn: bool = False, ordered: bool = True, ipv6_layout: str = 'rfc8956') -> dict:
    """one complete NLRI (length field + value) -> rule; adds 'length' and 'length_octets'"""
    n, h = read_length(nlri)
    if h + n > len(nlri):
        raise Malformed('length-overrun', f'{n} announced, {len(nlri) - h} present')
    if h + n < len(nlri):
        raise Malformed('trailing-bytes', f'{len(nlri) - h - n}')
    rule = decode_body(nlri[h:], afi, vpn, ordered, ipv6_layout)
    rule['length'] = n
    rule['length_octets'] = h
    return rule


def canonical(rule: dict) -> list:
    """the meaning only: [(type, (prefix, offset)) | (type, [(and, op, value), ...])], first AND forced to 0"""
    out = []
    for c in rule['components']:
        if 'terms' in c:
            terms = []
            for i, t in enumerate(c['terms']):
                op = t['op']
                value = t['value']
                terms.append((t['and'] if i else 0, op, value))
            out.append((c['type'], terms))
        else:
            out.append((c['type'], (c['prefix'], c['offset'])))
    return out


# ---------------------------------------------------------------------------- traffic actions (RFC 8955 7, RFC 8956 6)


def decode_action(community: bytes) -> dict:
    """one 8 octet extended community -> {'kind': ...}; kinds outside RFC 8955 are returned as 'other'"""
    if len(community) != 8:
        raise Malformed('extended-community-size', str(len(community)))
    kind = struct.unpack('!H', community[:2])[0]
    v = community[2:]
    if kind == 0x8006:  # traffic-rate-bytes: 2 octet AS, 4 octet IEEE float (bytes per second)
        return {'kind': 'rate-bytes', 'as': struct.unpack('!H', v[:2])[0], 'float': v[2:].hex()}
    if kind == 0x800C:  # traffic-rate-packets
        return {'kind': 'rate-packets', 'as': struct.unpack('!H', v[:2])[0], 'float': v[2:].hex()}
    if kind == 0x8007:  # traffic-action: bit 47 terminal, bit 46 sample, the rest zero
        bits = int.from_bytes(v, 'big')
        return {'kind': 'action', 'terminal': bits & 1, 'sample': (bits >> 1) & 1, 'other_bits': bits >> 2}
    if kind == 0x8008:  # rt-redirect AS-2octet
        return {'kind': 'redirect-as2', 'as': struct.unpack('!H', v[:2])[0], 'value': struct.unpack('!L', v[2:])[0]}
    if kind == 0x8108:  # rt-redirect IPv4
        return {'kind': 'redirect-ipv4', 'ip': str(ipaddress.IPv4Address(v[:4])), 'value': struct.unpack('!H', v[4:])[0]}
    if kind == 0x8208:  # rt-redirect AS-4octet
        return {'kind': 'redirect-as4', 'as': struct.unpack('!L', v[:4])[0], 'value': struct.unpack('!H', v[4:])[0]}
    if kind == 0x8009:  # traffic-marking: DSCP in the six least significant bits of the last octet
        return {'kind': 'mark', 'dscp': v[5] & 0x3F, 'other_bits': int.from_bytes(v, 'big') >> 6}
    if kind == 0x0800:  # draft-simpson-idr-flowspec-redirect: use the route's next hop, C bit = copy
        bits = int.from_bytes(v, 'big')
        return {'kind': 'nexthop', 'copy': bits & 1, 'other_bits': bits >> 1}
    if kind == 0x010C:  # draft-ietf-idr-flowspec-redirect-ip: IPv4 address, 2 octets with the C bit last
        return {'kind': 'nexthop-ietf', 'ip': str(ipaddress.IPv4Address(v[:4])), 'copy': v[5] & 1, 'other_bits': struct.unpack('!H', v[4:])[0] >> 1}
    return {'kind': 'other', 'raw': community.hex()}


def decode_action_ipv6(community: bytes) -> dict:
    """one 20 octet IPv6-address-specific extended community (attribute 25, RFC 5701)"""
    if len(community) != 20:
        raise Malformed('ipv6-extended-community-size', str(len(community)))
    kind = struct.unpack('!H', community[:2])[0]
    ip = str(ipaddress.IPv6Address(community[2:18]))
    local = struct.unpack('!H', community[18:])[0]
    if kind == 0x000D:  # RFC 8956 6.1 rt-redirect-ipv6
        return {'kind': 'redirect-ipv6', 'ip': ip, 'value': local}
    if kind == 0x000C:  # draft-ietf-idr-flowspec-redirect-ip
        return {'kind': 'nexthop-ietf', 'ip': ip, 'copy': local & 1, 'other_bits': local >> 1}
    return {'kind': 'other', 'raw': community.hex()}


def split_communities(value: bytes, size: int) -> list[bytes]:
    if len(value) % size:
        raise Malformed('community-attribute-size', str(len(value)))
    return [value[i : i + size] for i in range(0, len(value), size)]


# ============================================================================ builders (no call into the reader above)

NUM_LT, NUM_GT, NUM_EQ = 4, 2, 1
BIT_NOT, BIT_MATCH = 2, 1
_LEN_BITS = {1: 0x00, 2: 0x10, 4: 0x20, 8: 0x30}


def b_length(n: int) -> bytes:
    if n < 240:
        return bytes([n])
    if n > 4095:
        raise ValueError('a FlowSpec NLRI holds at most 4095 octets')
    return bytes([0xF0 | (n >> 8), n & 0xFF])


def b_prefix4(ctype: int, address: str, bits: int) -> bytes:
    raw = ipaddress.IPv4Address(address).packed
    return bytes([ctype, bits]) + raw[: (bits + 7) // 8]


def b_prefix6(ctype: int, address: str, bits: int, offset: int) -> bytes:
    """pattern = address bits [offset, bits) moved to the front, zero padded to an octet boundary"""
    whole = int.from_bytes(ipaddress.IPv6Address(address).packed, 'big')
    pbits = bits - offset
    pattern = (whole >> (128 - bits)) & ((1 << pbits) - 1) if pbits > 0 else 0
    n = (pbits + 7) // 8
    pattern <<= 8 * n - pbits
    return bytes([ctype, bits, offset]) + pattern.to_bytes(n, 'big')


def b_operator(eol: bool, and_bit: bool, width: int, op: int) -> int:
    return (0x80 if eol else 0) | (0x40 if and_bit else 0) | _LEN_BITS[width] | (op & 0x0F)


def b_component(ctype: int, terms: list, eol: str = 'last') -> bytes:
    """terms: [(and_bit, op bits, value, width)]; eol: 'last' (well-formed), 'none', 'first' (malformed on purpose)"""
    out = bytearray([ctype])
    for i, (and_bit, op, value, width) in enumerate(terms):
        last = i == len(terms) - 1
        flag = (eol == 'last' and last) or (eol == 'first' and i == 0)
        out.append(b_operator(flag, bool(and_bit), width, op))
        out += int(value).to_bytes(width, 'big')
    return bytes(out)


def b_rd(text: str) -> bytes:
    """RFC 4364 4.2 route distinguisher from its usual text forms"""
    admin, _, assigned = text.rpartition(':')
    if '.' in admin:
        return struct.pack('!H', 1) + ipaddress.IPv4Address(admin).packed + struct.pack('!H', int(assigned))
    if int(admin) < 65536:
        return struct.pack('!HHL', 0, int(admin), int(assigned))
    return struct.pack('!HLH', 2, int(admin), int(assigned))


def b_nlri(components: list[bytes], rd: bytes | None = None, length: int | None = None) -> bytes:
    value = (rd or b'') + b''.join(components)
    return b_length(len(value) if length is None else length) + value


def b_truncate(nlri_value: bytes, keep: int) -> bytes:
    """a complete NLRI whose value stops after `keep` octets (length field says so too)"""
    return b_length(keep) + nlri_value[:keep]


def b_overrun(nlri_value: bytes, extra: int) -> bytes:
    """length field announces `extra` octets more than follow"""
    return b_length(len(nlri_value) + extra) + nlri_value
