"""refwire.codec - an independent reader of BGP wire data, written from the RFC figures.

Imports nothing from exabgp.  Produces plain Python values (dict / list / tuple / int / str).
Raises Malformed for input the RFCs do not allow; never guesses.
"""

from __future__ import annotations

import ipaddress
import struct

MARKER = b'\xff' * 16
AS_TRANS = 23456

OPEN, UPDATE, NOTIFICATION, KEEPALIVE, ROUTE_REFRESH = 1, 2, 3, 4, 5

AFI_IPV4, AFI_IPV6, AFI_L2VPN, AFI_BGPLS = 1, 2, 25, 16388
SAFI_UNICAST, SAFI_MULTICAST, SAFI_LABEL, SAFI_VPN, SAFI_FLOW, SAFI_FLOW_VPN = 1, 2, 4, 128, 133, 134


class Malformed(Exception):
    pass


class Reader:
    def __init__(self, data: bytes) -> None:
        self.data = bytes(data)
        self.pos = 0

    def left(self) -> int:
        return len(self.data) - self.pos

    def take(self, n: int) -> bytes:
        if n < 0 or self.pos + n > len(self.data):
            raise Malformed(f'need {n} bytes, {self.left()} left')
        out = self.data[self.pos : self.pos + n]
        self.pos += n
        return out

    def u8(self) -> int:
        return self.take(1)[0]

    def u16(self) -> int:
        return struct.unpack('!H', self.take(2))[0]

    def u32(self) -> int:
        return struct.unpack('!L', self.take(4))[0]

    def u64(self) -> int:
        return struct.unpack('!Q', self.take(8))[0]

    def rest(self) -> bytes:
        return self.take(self.left())


# ---------------------------------------------------------------------------- framing (RFC 4271 4.1, RFC 8654)

TYPE_BOUNDS = {
    OPEN: lambda n: n >= 29,
    UPDATE: lambda n: n >= 23,
    NOTIFICATION: lambda n: n >= 21,
    KEEPALIVE: lambda n: n == 19,
    ROUTE_REFRESH: lambda n: n == 23,
}


def frame(msg_type: int, body: bytes, marker: bytes = MARKER, length: int | None = None) -> bytes:
    n = 19 + len(body) if length is None else length
    return marker + struct.pack('!HB', n, msg_type) + body


def split_stream(stream: bytes, msg_size: int, known_types: tuple = (1, 2, 3, 4, 5)) -> tuple[list[tuple[int, int, bytes]], tuple[int, int] | None, bytes]:
    """reference framing: ([(length,type,body)...], first header error as (code,subcode) or None, unconsumed tail)

    Header faults are checked in RFC 4271 6.1 order: marker, then length, then type.  A fault
    whose class depends on that order is produced by generators one at a time only.
    """
    out: list[tuple[int, int, bytes]] = []
    pos = 0
    while len(stream) - pos >= 19:
        head = stream[pos : pos + 19]
        length, mtype = struct.unpack('!HB', head[16:19])
        if head[:16] != MARKER:
            return out, (1, 1), stream[pos:]
        if length < 19 or length > msg_size:
            return out, (1, 2), stream[pos:]
        if mtype in TYPE_BOUNDS and not TYPE_BOUNDS[mtype](length):
            return out, (1, 2), stream[pos:]
        if mtype not in known_types:
            return out, (1, 3), stream[pos:]
        if len(stream) - pos < length:
            break
        out.append((length, mtype, stream[pos + 19 : pos + length]))
        pos += length
    return out, None, stream[pos:]


# ---------------------------------------------------------------------------- OPEN (RFC 4271 4.2, 5492, 9072)

CAP_MP, CAP_REFRESH, CAP_EXT_NH, CAP_EXT_MSG, CAP_GR, CAP_ASN4, CAP_ADDPATH, CAP_EREFRESH, CAP_HOSTNAME = 1, 2, 5, 6, 64, 65, 69, 70, 73
CAP_REFRESH_CISCO = 128


def decode_open(body: bytes) -> dict:
    r = Reader(body)
    version = r.u8()
    asn2 = r.u16()
    hold = r.u16()
    rid = r.u32()
    optlen = r.u8()
    extended = False
    params: list[tuple[int, bytes]] = []
    if optlen == 255 and r.left() >= 3 and r.data[r.pos] == 255:
        # RFC 9072: non-ext length 255, non-ext type 255, then 2-byte length
        r.u8()
        optlen = r.u16()
        extended = True
    block = Reader(r.take(optlen))
    if r.left():
        raise Malformed('bytes after the optional parameters')
    while block.left():
        ptype = block.u8()
        plen = block.u16() if extended else block.u8()
        params.append((ptype, block.take(plen)))
    caps: list[tuple[int, bytes]] = []
    other_params = []
    for ptype, value in params:
        if ptype != 2:
            other_params.append((ptype, value))
            continue
        c = Reader(value)
        while c.left():
            code = c.u8()
            clen = c.u8()
            caps.append((code, c.take(clen)))
    return {
        'version': version,
        'asn2': asn2,
        'hold': hold,
        'router_id': rid,
        'extended_params': extended,
        'caps': caps,
        'other_params': other_params,
    }


def caps_semantics(caps: list[tuple[int, bytes]]) -> dict:
    """what a set of capability TLVs means (duplicates are merged per RFC 5492: any instance counts)"""
    sem: dict = {
        'mp': [],  # list of (afi,safi) in order of first appearance
        'asn4': None,
        'addpath': {},  # (afi,safi) -> bits (1 receive, 2 send), last instance wins per family inside one TLV, union across
        'ext_nh': [],
        'refresh': False,
        'refresh_prestandard': False,
        'erefresh': False,
        'ext_msg': False,
        'gr': None,
        'hostname': None,
        'unknown': [],
        'malformed': [],
    }
    for code, value in caps:
        try:
            r = Reader(value)
            if code == CAP_MP:
                afi = r.u16()
                r.u8()
                safi = r.u8()
                if r.left():
                    raise Malformed('mp length')
                if (afi, safi) not in sem['mp']:
                    sem['mp'].append((afi, safi))
            elif code == CAP_ASN4:
                v = r.u32()
                if r.left():
                    raise Malformed('asn4 length')
                sem['asn4'] = v
            elif code == CAP_ADDPATH:
                if len(value) % 4:
                    raise Malformed('addpath length')
                while r.left():
                    afi = r.u16()
                    safi = r.u8()
                    bits = r.u8()
                    sem['addpath'][(afi, safi)] = bits
            elif code == CAP_EXT_NH:
                if len(value) % 6:
                    raise Malformed('ext nh length')
                while r.left():
                    afi = r.u16()
                    safi = r.u16()
                    nh = r.u16()
                    if (afi, safi, nh) not in sem['ext_nh']:
                        sem['ext_nh'].append((afi, safi, nh))
            elif code == CAP_REFRESH:
                sem['refresh'] = True
            elif code == CAP_REFRESH_CISCO:
                # pre-standard code point (deprecated, RFC 8810): it is not the RFC 2918 capability and negotiates nothing
                sem['refresh_prestandard'] = True
            elif code == CAP_EREFRESH:
                sem['erefresh'] = True
            elif code == CAP_EXT_MSG:
                sem['ext_msg'] = True
            elif code == CAP_GR:
                flags_time = r.u16()
                fams = []
                while r.left():
                    afi = r.u16()
                    safi = r.u8()
                    f = r.u8()
                    fams.append((afi, safi, f))
                sem['gr'] = (flags_time >> 12, flags_time & 0x0FFF, fams)
            elif code == CAP_HOSTNAME:
                hl = r.u8()
                host = r.take(hl)
                dl = r.u8() if r.left() else 0
                dom = r.take(dl)
                sem['hostname'] = (host, dom)
            else:
                sem['unknown'].append((code, value))
        except Malformed:
            sem['malformed'].append((code, value))
    return sem


# ---------------------------------------------------------------------------- prefixes and NLRI


def _prefix(r: Reader, afi: int, bits: int) -> str:
    maxbits = 32 if afi == AFI_IPV4 else 128
    if bits > maxbits:
        raise Malformed(f'mask {bits} > {maxbits}')
    nbytes = (bits + 7) // 8
    raw = r.take(nbytes)
    full = raw + bytes((maxbits // 8) - nbytes)
    n = int.from_bytes(full, 'big')
    # host bits beyond the mask are masked for comparison
    if bits < maxbits:
        n &= ~((1 << (maxbits - bits)) - 1)
    addr = ipaddress.IPv4Address(n) if afi == AFI_IPV4 else ipaddress.IPv6Address(n)
    return f'{addr}/{bits}'


def _labels(r: Reader, bits: int, withdraw: bool) -> tuple[list[int], int, bool]:
    """read the label stack (RFC 8277): returns labels, remaining bits, raw bottom-of-stack seen"""
    labels: list[int] = []
    bos = False
    while True:
        if bits < 24:
            raise Malformed('label stack runs past the prefix length')
        raw = int.from_bytes(r.take(3), 'big')
        bits -= 24
        labels.append(raw >> 4)
        if raw & 1:
            bos = True
            break
        # RFC 8277 2.4 / RFC 3107: withdraw may carry 0x800000 or 0x000000 as a single compatibility value
        if withdraw and raw in (0x800000, 0x000000):
            break
    return labels, bits, bos


def decode_nlri(data: bytes, afi: int, safi: int, addpath: bool, withdraw: bool = False) -> list[dict]:
    """NLRI list for the IP families (RFC 4271, 4760, 7911, 8277, 4364)"""
    r = Reader(data)
    out: list[dict] = []
    if afi not in (AFI_IPV4, AFI_IPV6) or safi not in (SAFI_UNICAST, SAFI_MULTICAST, SAFI_LABEL, SAFI_VPN):
        raise Malformed(f'family {afi}/{safi} not modelled')
    while r.left():
        entry: dict = {'afi': afi, 'safi': safi}
        if addpath:
            entry['path_id'] = r.u32()
        bits = r.u8()
        if safi in (SAFI_LABEL, SAFI_VPN):
            labels, bits, bos = _labels(r, bits, withdraw)
            entry['labels'] = labels
            entry['bos'] = bos
        if safi == SAFI_VPN:
            if bits < 64:
                raise Malformed('no room for the route distinguisher')
            entry['rd'] = r.take(8).hex()
            bits -= 64
        entry['prefix'] = _prefix(r, afi, bits)
        out.append(entry)
    return out


def nlri_key(e: dict) -> tuple:
    return (e['afi'], e['safi'], e.get('path_id'), e['prefix'], tuple(e.get('labels', ())), e.get('rd'))


# ---------------------------------------------------------------------------- attributes

ORIGIN, AS_PATH, NEXT_HOP, MED, LOCAL_PREF, ATOMIC_AGGREGATE, AGGREGATOR, COMMUNITY, ORIGINATOR_ID, CLUSTER_LIST = range(1, 11)
MP_REACH, MP_UNREACH, EXT_COMMUNITY, AS4_PATH, AS4_AGGREGATOR = 14, 15, 16, 17, 18
PMSI, AIGP, LARGE_COMMUNITY, PREFIX_SID = 22, 26, 32, 40

F_OPTIONAL, F_TRANSITIVE, F_PARTIAL, F_EXTENDED = 0x80, 0x40, 0x20, 0x10

WELL_KNOWN = {ORIGIN, AS_PATH, NEXT_HOP, LOCAL_PREF, ATOMIC_AGGREGATE}
# expected (optional, transitive) per RFC
FLAGS = {
    ORIGIN: (0, 1),
    AS_PATH: (0, 1),
    NEXT_HOP: (0, 1),
    MED: (1, 0),
    LOCAL_PREF: (0, 1),
    ATOMIC_AGGREGATE: (0, 1),
    AGGREGATOR: (1, 1),
    COMMUNITY: (1, 1),
    ORIGINATOR_ID: (1, 0),
    CLUSTER_LIST: (1, 0),
    MP_REACH: (1, 0),
    MP_UNREACH: (1, 0),
    EXT_COMMUNITY: (1, 1),
    AS4_PATH: (1, 1),
    AS4_AGGREGATOR: (1, 1),
    AIGP: (1, 0),
    LARGE_COMMUNITY: (1, 1),
}


def split_attributes(block: bytes) -> list[tuple[int, int, bytes]]:
    """[(flags, code, value)] - RFC 4271 4.3"""
    r = Reader(block)
    out = []
    while r.left():
        flags = r.u8()
        code = r.u8()
        length = r.u16() if flags & F_EXTENDED else r.u8()
        out.append((flags, code, r.take(length)))
    return out


def decode_aspath(value: bytes, asn4: bool) -> list[tuple[int, list[int]]]:
    r = Reader(value)
    segs: list[tuple[int, list[int]]] = []
    width = 4 if asn4 else 2
    while r.left():
        stype = r.u8()
        count = r.u8()
        if stype not in (1, 2, 3, 4):
            raise Malformed(f'segment type {stype}')
        if count == 0:
            raise Malformed('empty segment')
        asns = [int.from_bytes(r.take(width), 'big') for _ in range(count)]
        segs.append((stype, asns))
    return segs


def aspath_len(segs: list[tuple[int, list[int]]]) -> int:
    """RFC 4271 9.1.2.2 / RFC 6793: a SET counts 1, confed segments count 0"""
    n = 0
    for stype, asns in segs:
        if stype == 2:
            n += len(asns)
        elif stype == 1:
            n += 1
    return n


def merge_as4(as_path: list[tuple[int, list[int]]], as4_path: list[tuple[int, list[int]]] | None) -> list[tuple[int, list[int]]]:
    """RFC 6793 4.2.3: reconstruct the path received from an OLD speaker"""
    if as4_path is None:
        return [(t, list(a)) for (t, a) in as_path]
    # confed segments in AS4_PATH are discarded (RFC 6793 3)
    as4 = [(t, list(a)) for (t, a) in as4_path if t in (1, 2)]
    n2 = aspath_len(as_path)
    n4 = aspath_len(as4)
    if n2 < n4:
        return [(t, list(a)) for (t, a) in as_path]
    need = n2 - n4
    out: list[tuple[int, list[int]]] = []
    for stype, asns in as_path:
        if stype in (3, 4):
            # leading, or adjacent to a segment that was prepended
            out.append((stype, list(asns)))
            continue
        if need <= 0:
            break
        if stype == 1:
            out.append((stype, list(asns)))
            need -= 1
        else:
            take = asns[:need]
            out.append((stype, list(take)))
            need -= len(take)
            if len(take) < len(asns):
                break
    return out + as4


def normalise_path(segs: list[tuple[int, list[int]]]) -> list[tuple[int, tuple[int, ...]]]:
    """adjacent AS_SEQUENCE (and adjacent CONFED_SEQUENCE) segments mean the same as one segment"""
    out: list[tuple[int, tuple[int, ...]]] = []
    for t, a in segs:
        if not a:
            continue
        if out and out[-1][0] == t and t in (2, 3):
            out[-1] = (t, out[-1][1] + tuple(a))
        elif t in (1, 4):
            out.append((t, tuple(sorted(a))))
        else:
            out.append((t, tuple(a)))
    return out


def _ipv4(b: bytes) -> str:
    if len(b) != 4:
        raise Malformed('ipv4 length')
    return str(ipaddress.IPv4Address(b))


def _ipv6(b: bytes) -> str:
    if len(b) != 16:
        raise Malformed('ipv6 length')
    return str(ipaddress.IPv6Address(b))


def decode_mp_nexthop(afi: int, safi: int, nh: bytes) -> list[str]:
    """next hop field of MP_REACH (RFC 4760 3, 2545 3, 4364 4.3.2, 4659 3.2.1, 8950 3)"""
    if safi == SAFI_VPN:
        if len(nh) in (12, 24, 48):
            out = []
            step = 12 if len(nh) == 12 else 24
            for i in range(0, len(nh), step):
                chunk = nh[i : i + step]
                if chunk[:8] != bytes(8):
                    raise Malformed('next hop RD not zero')
                out.append(_ipv4(chunk[8:]) if step == 12 else _ipv6(chunk[8:]))
            return out
        raise Malformed(f'vpn next hop length {len(nh)}')
    if len(nh) == 4:
        return [_ipv4(nh)]
    if len(nh) == 16:
        return [_ipv6(nh)]
    if len(nh) == 32:
        return [_ipv6(nh[:16]), _ipv6(nh[16:])]
    raise Malformed(f'next hop length {len(nh)}')


def decode_mp_reach(value: bytes, addpath_for) -> dict:
    r = Reader(value)
    afi = r.u16()
    safi = r.u8()
    nhlen = r.u8()
    nh = r.take(nhlen)
    r.u8()  # reserved
    nlri_raw = r.rest()
    out = {'afi': afi, 'safi': safi, 'nexthop_raw': nh.hex(), 'nlri_raw': nlri_raw.hex()}
    if afi in (AFI_IPV4, AFI_IPV6) and safi in (SAFI_UNICAST, SAFI_MULTICAST, SAFI_LABEL, SAFI_VPN):
        out['nexthop'] = decode_mp_nexthop(afi, safi, nh)
        out['nlri'] = decode_nlri(nlri_raw, afi, safi, addpath_for(afi, safi))
    return out


def decode_mp_unreach(value: bytes, addpath_for) -> dict:
    r = Reader(value)
    afi = r.u16()
    safi = r.u8()
    nlri_raw = r.rest()
    out = {'afi': afi, 'safi': safi, 'nlri_raw': nlri_raw.hex()}
    if afi in (AFI_IPV4, AFI_IPV6) and safi in (SAFI_UNICAST, SAFI_MULTICAST, SAFI_LABEL, SAFI_VPN):
        out['nlri'] = decode_nlri(nlri_raw, afi, safi, addpath_for(afi, safi), withdraw=True)
    return out


def decode_attribute(code: int, value: bytes, asn4: bool, addpath_for) -> object:
    """semantic value of one attribute (strict lengths per RFC 4271 / 7606)"""
    if code == ORIGIN:
        if len(value) != 1 or value[0] > 2:
            raise Malformed('origin')
        return value[0]
    if code == AS_PATH:
        return decode_aspath(value, asn4)
    if code == AS4_PATH:
        return decode_aspath(value, True)
    if code == NEXT_HOP:
        return _ipv4(value)
    if code in (MED, LOCAL_PREF):
        if len(value) != 4:
            raise Malformed('u32 attribute length')
        return struct.unpack('!L', value)[0]
    if code == ATOMIC_AGGREGATE:
        if value:
            raise Malformed('atomic aggregate length')
        return True
    if code == AGGREGATOR:
        if len(value) != (8 if asn4 else 6):
            raise Malformed('aggregator length')
        w = 4 if asn4 else 2
        return (int.from_bytes(value[:w], 'big'), _ipv4(value[w:]))
    if code == AS4_AGGREGATOR:
        if len(value) != 8:
            raise Malformed('as4 aggregator length')
        return (int.from_bytes(value[:4], 'big'), _ipv4(value[4:]))
    if code == COMMUNITY:
        if len(value) % 4 or not value:
            raise Malformed('community length')
        return [struct.unpack('!L', value[i : i + 4])[0] for i in range(0, len(value), 4)]
    if code == ORIGINATOR_ID:
        return _ipv4(value)
    if code == CLUSTER_LIST:
        if len(value) % 4 or not value:
            raise Malformed('cluster list length')
        return [_ipv4(value[i : i + 4]) for i in range(0, len(value), 4)]
    if code == EXT_COMMUNITY:
        if len(value) % 8 or not value:
            raise Malformed('extended community length')
        return [value[i : i + 8].hex() for i in range(0, len(value), 8)]
    if code == LARGE_COMMUNITY:
        if len(value) % 12 or not value:
            raise Malformed('large community length')
        return [struct.unpack('!LLL', value[i : i + 12]) for i in range(0, len(value), 12)]
    if code == AIGP:
        r = Reader(value)
        out = []
        while r.left():
            t = r.u8()
            ln = r.u16()
            if ln < 3:
                raise Malformed('aigp tlv length')
            v = r.take(ln - 3)
            if t == 1:
                if len(v) != 8:
                    raise Malformed('aigp value length')
                out.append(int.from_bytes(v, 'big'))
        return out
    if code == MP_REACH:
        return decode_mp_reach(value, addpath_for)
    if code == MP_UNREACH:
        return decode_mp_unreach(value, addpath_for)
    return value.hex()


def decode_update(body: bytes, asn4: bool, addpath=lambda afi, safi: False) -> dict:
    """RFC 4271 4.3 split plus per-attribute decode"""
    r = Reader(body)
    wlen = r.u16()
    withdrawn_raw = r.take(wlen)
    alen = r.u16()
    attr_raw = r.take(alen)
    nlri_raw = r.rest()
    attrs_list = split_attributes(attr_raw)
    attrs: dict[int, object] = {}
    flags: dict[int, int] = {}
    order: list[int] = []
    for fl, code, value in attrs_list:
        order.append(code)
        if code in attrs:
            # RFC 7606 3.g: duplicates other than MP are discarded (first kept)
            continue
        attrs[code] = decode_attribute(code, value, asn4, addpath)
        flags[code] = fl
    return {
        'withdrawn': decode_nlri(withdrawn_raw, AFI_IPV4, SAFI_UNICAST, addpath(AFI_IPV4, SAFI_UNICAST), withdraw=True),
        'nlri': decode_nlri(nlri_raw, AFI_IPV4, SAFI_UNICAST, addpath(AFI_IPV4, SAFI_UNICAST)),
        'attrs': attrs,
        'flags': flags,
        'order': order,
        'raw_attrs': attrs_list,
    }


def is_eor(body: bytes) -> tuple[int, int] | None:
    """RFC 4724 2: End-of-RIB marker family, or None"""
    if body == b'\x00\x00\x00\x00':
        return (AFI_IPV4, SAFI_UNICAST)
    try:
        r = Reader(body)
        if r.u16() != 0:
            return None
        alen = r.u16()
        block = r.take(alen)
        if r.left():
            return None
        attrs = split_attributes(block)
    except Malformed:
        return None
    if len(attrs) == 1 and attrs[0][1] == MP_UNREACH and len(attrs[0][2]) == 3:
        afi, safi = struct.unpack('!HB', attrs[0][2])
        return (afi, safi)
    return None


def decode_notification(body: bytes) -> tuple[int, int, bytes]:
    if len(body) < 2:
        raise Malformed('notification too short')
    return body[0], body[1], body[2:]


# ---------------------------------------------------------------------------- the peer's view of a stream of UPDATEs


class PeerTable:
    """what a receiving speaker holds after applying UPDATEs in order (RFC 4271 9, 4760)"""

    def __init__(self, asn4: bool, addpath=lambda afi, safi: False) -> None:
        self.asn4 = asn4
        self.addpath = addpath
        self.table: dict[tuple, dict] = {}
        self.eors: list[tuple[int, int]] = []
        self.log: list[tuple[str, tuple]] = []

    @staticmethod
    def attr_view(attrs: dict[int, object]) -> dict:
        view = {}
        for code, v in attrs.items():
            if code in (MP_REACH, MP_UNREACH):
                continue
            if code in (COMMUNITY, EXT_COMMUNITY, LARGE_COMMUNITY):
                v = sorted(tuple(x) if isinstance(x, (list, tuple)) else x for x in v)  # type: ignore[union-attr]
            view[code] = v
        return view

    def apply(self, body: bytes) -> None:
        eor = is_eor(body)
        if eor:
            self.eors.append(eor)
            self.log.append(('eor', eor))
            return
        u = decode_update(body, self.asn4, self.addpath)
        view = self.attr_view(u['attrs'])
        for e in u['withdrawn']:
            self.table.pop(nlri_key(e), None)
            self.log.append(('withdraw', nlri_key(e)))
        if MP_UNREACH in u['attrs']:
            for e in u['attrs'][MP_UNREACH].get('nlri', []):  # type: ignore[union-attr]
                self.table.pop(nlri_key(e), None)
                self.log.append(('withdraw', nlri_key(e)))
        for e in u['nlri']:
            self.table[nlri_key(e)] = {'attrs': view, 'nexthop': u['attrs'].get(NEXT_HOP)}
            self.log.append(('announce', nlri_key(e)))
        if MP_REACH in u['attrs']:
            mp = u['attrs'][MP_REACH]
            for e in mp.get('nlri', []):  # type: ignore[union-attr]
                v = {k: val for k, val in view.items() if k != NEXT_HOP}
                self.table[nlri_key(e)] = {'attrs': v, 'nexthop': mp['nexthop'][0] if mp.get('nexthop') else None}  # type: ignore[index]
                self.log.append(('announce', nlri_key(e)))
