"""c15_corpus.py - seed corpora for C15, built deterministically from the files on disk.

Nothing here imports exabgp: the UPDATE bodies are split with refwire (RFC framing only), so a corpus entry is
what was on the wire, not what exabgp made of it.

NLRI_SEEDS   {(afi, safi): [ {hex, addpath, action, source, encoder} ]}   one entry per NLRI *field* (may hold several NLRIs)
ATTR_SEEDS   {code:        [ {flags, hex, asn4, source, encoder} ]}
CONF_FILES   sorted list of /repo/etc/exabgp/*.conf basenames
"""

from __future__ import annotations

import glob
import os
import re
import struct

from vlib.refwire import codec

REPO = os.path.dirname(os.environ.get('VERIF_REPO_SRC', '/repo/src').rstrip('/'))
if not os.path.isdir(os.path.join(REPO, 'qa')):
    REPO = '/repo'  # a mutated scratch copy holds only src/: the vectors are read from the real tree
ETC = os.path.join(REPO, 'etc', 'exabgp')
QA_ENCODING = os.path.join(REPO, 'qa', 'encoding')
QA_DECODING = os.path.join(REPO, 'qa', 'decoding')

NLRI_SEEDS: dict[tuple[int, int], list[dict]] = {}
ATTR_SEEDS: dict[int, list[dict]] = {}
MESSAGES: list[dict] = []  # whole UPDATE bodies: {hex, addpath, asn4, source, encoder}


def _conf_options(conf_name: str) -> tuple[bool, bool, bool]:
    """(add-path offered, asn4 offered, extended next hop offered) read from the text of the configuration a .ci file names"""
    path = os.path.join(ETC, conf_name)
    try:
        with open(path) as fh:
            text = fh.read()
    except OSError:
        return False, True, False
    text = re.sub(r'#.*', '', text)
    addpath = bool(re.search(r'add-path\s+(send|receive|send/receive)\s*;', text))
    asn4 = not re.search(r'asn4\s+disable\s*;', text)
    extnh = bool(re.search(r'nexthop\s+(true|enable)\s*;', text))
    return addpath, asn4, extnh


def _add_nlri(afi: int, safi: int, raw: bytes, addpath: bool, action: str, source: str, encoder: bool) -> None:
    if not raw:
        return
    bucket = NLRI_SEEDS.setdefault((afi, safi), [])
    entry = {'hex': raw.hex(), 'addpath': addpath, 'action': action, 'source': source, 'encoder': encoder}
    if not any(e['hex'] == entry['hex'] and e['addpath'] == addpath and e['action'] == action for e in bucket):
        bucket.append(entry)


def _add_attr(code: int, flags: int, value: bytes, asn4: bool, source: str, encoder: bool) -> None:
    bucket = ATTR_SEEDS.setdefault(code, [])
    entry = {'flags': flags, 'hex': value.hex(), 'asn4': asn4, 'source': source, 'encoder': encoder}
    if not any(e['hex'] == entry['hex'] and e['flags'] == flags and e['asn4'] == asn4 for e in bucket):
        bucket.append(entry)


def split_update(body: bytes) -> tuple[bytes, bytes, bytes]:
    wlen = struct.unpack('!H', body[:2])[0]
    withdrawn = body[2 : 2 + wlen]
    alen = struct.unpack('!H', body[2 + wlen : 4 + wlen])[0]
    attrs = body[4 + wlen : 4 + wlen + alen]
    nlri = body[4 + wlen + alen :]
    if 4 + wlen + alen > len(body):
        raise ValueError('lengths overrun')
    return withdrawn, attrs, nlri


def _harvest(body: bytes, addpath: bool, asn4: bool, source: str, encoder: bool, extnh: bool = False) -> None:
    try:
        withdrawn, attrs, nlri = split_update(body)
        parts = codec.split_attributes(attrs)
    except Exception:  # noqa: BLE001 - not an UPDATE we can split: not a seed
        return
    MESSAGES.append({'hex': body.hex(), 'addpath': addpath, 'asn4': asn4, 'extnh': extnh, 'source': source, 'encoder': encoder})
    _add_nlri(1, 1, withdrawn, addpath, 'withdraw', source, encoder)
    _add_nlri(1, 1, nlri, addpath, 'announce', source, encoder)
    for flags, code, value in parts:
        if code == 14 and len(value) >= 5:
            afi, safi, nhl = struct.unpack('!HBB', value[:4])
            _add_nlri(afi, safi, value[4 + nhl + 1 :], addpath, 'announce', source, encoder)
        elif code == 15 and len(value) >= 3:
            afi, safi = struct.unpack('!HB', value[:3])
            _add_nlri(afi, safi, value[3:], addpath, 'withdraw', source, encoder)
        _add_attr(code, flags, value, asn4, source, encoder)


def _build() -> None:
    for path in sorted(glob.glob(os.path.join(QA_ENCODING, '*.ci'))):
        name = os.path.basename(path)[:-3]
        addpath, asn4, extnh = False, True, False
        with open(path) as fh:
            lines = fh.read().splitlines()
        n = 0
        for line in lines:
            if line.startswith('option:file:'):
                addpath, asn4, extnh = _conf_options(line.split(':', 2)[2].strip())
                continue
            m = re.match(r'^\w+:raw:([0-9A-Fa-f:]+)$', line.strip())
            if not m:
                continue
            raw = bytes.fromhex(m.group(1).replace(':', ''))
            if len(raw) < 19 or raw[18] != 2:
                continue
            n += 1
            _harvest(raw[19:], addpath, asn4, f'qa-encoding:{name}#{n}', True, extnh)
    for path in sorted(glob.glob(os.path.join(QA_DECODING, '*'))):
        name = os.path.basename(path)
        with open(path) as fh:
            lines = fh.read().splitlines()
        if len(lines) < 2:
            continue
        what = lines[0].split()
        try:
            raw = bytes.fromhex(lines[1].strip().replace(':', ''))
        except ValueError:
            continue
        if raw.startswith(codec.MARKER):
            raw = raw[19:]
        if what and what[0] == 'update':
            # captured from other speakers: accepted input, not necessarily what exabgp's encoder writes
            _harvest(raw, False, True, f'qa-decoding:{name}', False)
        elif what and what[0] == 'nlri' and len(what) == 3:
            fam = {'bgp-ls': (16388, 71)}.get(what[1])
            if fam:
                _add_nlri(fam[0], fam[1], raw, False, 'announce', f'qa-decoding:{name}', False)


_build()
CONF_FILES = sorted(os.path.basename(p) for p in glob.glob(os.path.join(ETC, '*.conf')))
