"""c03_mutate.py - locate the TLV structure of a well-formed BGP message body and apply ONE structured corruption.

Imports nothing from exabgp: the tree is built from the RFC layouts only.

A node is a dict: kind, start (first byte of the TLV), cstart (first byte of its content), end, children, and
lf = (offset, width, unit, bias) when the TLV has a length/count field: value = (end - cstart) // unit + bias.
"""

from __future__ import annotations

import struct

IP_SAFI = (1, 2, 4, 128)


def _node(kind: str, start: int, cstart: int, end: int, lf: tuple | None = None) -> dict:
    return {'kind': kind, 'start': start, 'cstart': cstart, 'end': end, 'lf': lf, 'children': []}


def _u16(b: bytes, o: int) -> int:
    return struct.unpack('!H', b[o : o + 2])[0]


# ---------------------------------------------------------------------------- NLRI fields


def _tlv_run(b: bytes, start: int, end: int, parent: dict, kind: str, tw: int, lw: int, bias: int = 0, deeper=None) -> None:
    """a run of TLVs with a tw-byte type and an lw-byte length"""
    pos = start
    while pos + tw + lw <= end:
        ln = b[pos + tw] if lw == 1 else _u16(b, pos + tw)
        ln -= bias
        cs = pos + tw + lw
        if ln < 0 or cs + ln > end:
            return
        n = _node(kind, pos, cs, cs + ln, (pos + tw, lw, 1, bias))
        parent['children'].append(n)
        if deeper:
            deeper(b, n)
        pos = cs + ln


def _bgpls_descr(b: bytes, n: dict) -> None:
    t = _u16(b, n['start'])
    if t in (256, 257):  # local / remote node descriptors hold sub-TLVs
        _tlv_run(b, n['cstart'], n['end'], n, 'bgpls-sub-tlv', 2, 2)


def _nlri_field(b: bytes, start: int, end: int, parent: dict, afi: int, safi: int, addpath: bool) -> None:
    pos = start
    while pos < end:
        s = pos
        if (afi in (1, 2) and safi in IP_SAFI) or safi in (73, 132):
            if addpath and afi in (1, 2) and safi in IP_SAFI:
                pos += 4
            if pos >= end:
                return
            bits = b[pos]
            size = (bits + 7) // 8
            if pos + 1 + size > end:
                return
            n = _node('prefix', s, pos + 1, pos + 1 + size, (pos, 1, 'bits', 0))
            parent['children'].append(n)
            pos += 1 + size
        elif safi in (133, 134):
            ln = b[pos]
            lw = 1
            if ln >= 0xF0:
                if pos + 2 > end:
                    return
                ln = _u16(b, pos) & 0x0FFF
                lw = 2
            if pos + lw + ln > end:
                return
            n = _node('flow-nlri', s, pos + lw, pos + lw + ln, (pos, lw, 'flow', 0))
            parent['children'].append(n)
            # components: type then either a prefix or an operator list; only the prefix lengths are located
            c = n['cstart'] + (8 if safi == 134 else 0)
            while c + 1 < n['end'] and b[c] in (1, 2):
                bits = b[c + 1]
                size = (bits + 7) // 8 + (1 if afi == 2 else 0)
                if c + 2 + size > n['end']:
                    break
                n['children'].append(_node('flow-prefix', c, c + 2, c + 2 + size, (c + 1, 1, 'bits', 0)))
                c += 2 + size
            pos = n['end']
        elif (afi, safi) == (25, 70) or safi == 5:
            if pos + 2 > end:
                return
            ln = b[pos + 1]
            if pos + 2 + ln > end:
                return
            parent['children'].append(_node('evpn-route' if safi == 70 else 'mvpn-route', s, pos + 2, pos + 2 + ln, (pos + 1, 1, 1, 0)))
            pos += 2 + ln
        elif (afi, safi) == (25, 65):
            if pos + 2 > end:
                return
            ln = _u16(b, pos)
            if pos + 2 + ln > end:
                return
            parent['children'].append(_node('vpls', s, pos + 2, pos + 2 + ln, (pos, 2, 1, 0)))
            pos += 2 + ln
        elif safi == 85:
            if pos + 4 > end:
                return
            ln = b[pos + 3]
            if pos + 4 + ln > end:
                return
            parent['children'].append(_node('mup-route', s, pos + 4, pos + 4 + ln, (pos + 3, 1, 1, 0)))
            pos += 4 + ln
        elif afi == 16388:
            if pos + 4 > end:
                return
            ln = _u16(b, pos + 2)
            if pos + 4 + ln > end:
                return
            n = _node('bgpls-nlri', s, pos + 4, pos + 4 + ln, (pos + 2, 2, 1, 0))
            parent['children'].append(n)
            inner = n['cstart'] + 9 + (8 if safi == 72 else 0)  # protocol id, identifier (and RD)
            if inner <= n['end']:
                _tlv_run(b, inner, n['end'], n, 'bgpls-tlv', 2, 2, 0, _bgpls_descr)
            pos = n['end']
        else:
            return


# ---------------------------------------------------------------------------- attributes


def _fixed_run(b: bytes, n: dict, size: int, kind: str) -> None:
    pos = n['cstart']
    while pos + size <= n['end']:
        n['children'].append(_node(kind, pos, pos, pos + size))
        pos += size


def _srv6_sub(b: bytes, n: dict) -> None:
    t = b[n['start']]
    if t in (5, 6) and n['cstart'] + 1 <= n['end']:  # SRv6 L3/L2 service: reserved byte then sub-TLVs

        def subsub(b2: bytes, m: dict) -> None:
            if b2[m['start']] == 1 and m['cstart'] + 21 <= m['end']:  # SID information: fixed part then sub-sub-TLVs
                _tlv_run(b2, m['cstart'] + 21, m['end'], m, 'srv6-subsub-tlv', 1, 2)

        _tlv_run(b, n['cstart'] + 1, n['end'], n, 'srv6-sub-tlv', 1, 2, 0, subsub)


def _tunnel_sub(b: bytes, n: dict) -> None:
    pos = n['cstart']
    while pos + 2 <= n['end']:
        t = b[pos]
        lw = 2 if t >= 128 else 1
        if pos + 1 + lw > n['end']:
            return
        ln = b[pos + 1] if lw == 1 else _u16(b, pos + 1)
        cs = pos + 1 + lw
        if cs + ln > n['end']:
            return
        sub = _node('tunnel-sub-tlv', pos, cs, cs + ln, (pos + 1, lw, 1, 0))
        n['children'].append(sub)
        if t == 128 and cs + 1 <= cs + ln:  # segment list: reserved byte then segment sub-TLVs
            _tlv_run(b, cs + 1, cs + ln, sub, 'segment', 1, 1)
        pos = cs + ln


def _attribute_inside(b: bytes, n: dict, code: int, asn4: bool, addpath_for) -> None:
    cs, end = n['cstart'], n['end']
    if code in (2, 17):
        width = 4 if (asn4 or code == 17) else 2
        pos = cs
        while pos + 2 <= end:
            count = b[pos + 1]
            if pos + 2 + count * width > end:
                return
            n['children'].append(_node('as-segment', pos, pos + 2, pos + 2 + count * width, (pos + 1, 1, width, 0)))
            pos += 2 + count * width
    elif code in (8,):
        _fixed_run(b, n, 4, 'community')
    elif code == 10:
        _fixed_run(b, n, 4, 'cluster-id')
    elif code == 16:
        _fixed_run(b, n, 8, 'ext-community')
    elif code == 25:
        _fixed_run(b, n, 20, 'ipv6-ext-community')
    elif code == 32:
        _fixed_run(b, n, 12, 'large-community')
    elif code == 26:
        _tlv_run(b, cs, end, n, 'aigp-tlv', 1, 2, 3)
    elif code == 29:
        _tlv_run(b, cs, end, n, 'bgpls-attr-tlv', 2, 2)
    elif code == 40:
        _tlv_run(b, cs, end, n, 'prefix-sid-tlv', 1, 2, 0, _srv6_sub)
    elif code == 23:
        _tlv_run(b, cs, end, n, 'tunnel-tlv', 2, 2, 0, _tunnel_sub)
    elif code == 14 and cs + 5 <= end:
        afi, safi, nhl = _u16(b, cs), b[cs + 2], b[cs + 3]
        if cs + 4 + nhl + 1 > end:
            return
        n['children'].append(_node('mp-nexthop', cs + 3, cs + 4, cs + 4 + nhl, (cs + 3, 1, 1, 0)))
        field = _node('mp-nlri-field', cs + 5 + nhl, cs + 5 + nhl, end)
        n['children'].append(field)
        _nlri_field(b, field['cstart'], end, field, afi, safi, addpath_for(afi, safi))
    elif code == 15 and cs + 3 <= end:
        afi, safi = _u16(b, cs), b[cs + 2]
        field = _node('mp-nlri-field', cs + 3, cs + 3, end)
        n['children'].append(field)
        _nlri_field(b, field['cstart'], end, field, afi, safi, addpath_for(afi, safi))


def tree_update(b: bytes, asn4: bool = True, addpath_for=lambda a, s: False) -> dict:
    root = _node('update', 0, 0, len(b))
    if len(b) < 4:
        return root
    wl = _u16(b, 0)
    if 2 + wl + 2 > len(b):
        return root
    w = _node('withdrawn-field', 0, 2, 2 + wl, (0, 2, 1, 0))
    root['children'].append(w)
    _nlri_field(b, 2, 2 + wl, w, 1, 1, addpath_for(1, 1))
    al = _u16(b, 2 + wl)
    a0 = 4 + wl
    if a0 + al > len(b):
        return root
    attrs = _node('attributes-field', 2 + wl, a0, a0 + al, (2 + wl, 2, 1, 0))
    root['children'].append(attrs)
    pos = a0
    while pos + 3 <= a0 + al:
        flags, code = b[pos], b[pos + 1]
        lw = 2 if flags & 0x10 else 1
        if pos + 2 + lw > a0 + al:
            break
        ln = _u16(b, pos + 2) if lw == 2 else b[pos + 2]
        cs = pos + 2 + lw
        if cs + ln > a0 + al:
            break
        n = _node(f'attribute-{code}' if code in (2, 14, 15, 16, 17, 23, 26, 29, 40) else 'attribute', pos, cs, cs + ln, (pos + 2, lw, 1, 0))
        attrs['children'].append(n)
        _attribute_inside(b, n, code, asn4, addpath_for)
        pos = cs + ln
    field = _node('nlri-field', a0 + al, a0 + al, len(b))
    root['children'].append(field)
    _nlri_field(b, a0 + al, len(b), field, 1, 1, addpath_for(1, 1))
    return root


# ---------------------------------------------------------------------------- OPEN and the small messages


def _capability_inside(b: bytes, n: dict) -> None:
    code = b[n['start']]
    cs, end = n['cstart'], n['end']
    if code == 73 and cs < end:  # hostname: length-prefixed host then length-prefixed domain
        hl = b[cs]
        if cs + 1 + hl <= end:
            n['children'].append(_node('cap-string', cs, cs + 1, cs + 1 + hl, (cs, 1, 1, 0)))
            d = cs + 1 + hl
            if d < end and d + 1 + b[d] <= end:
                n['children'].append(_node('cap-string', d, d + 1, d + 1 + b[d], (d, 1, 1, 0)))
    elif code == 75 and cs < end and cs + 1 + b[cs] <= end:  # software version
        n['children'].append(_node('cap-string', cs, cs + 1, cs + 1 + b[cs], (cs, 1, 1, 0)))
    elif code in (1, 69):
        _fixed_run(b, n, 4, 'cap-tuple')
    elif code == 5:
        _fixed_run(b, n, 6, 'cap-tuple')
    elif code == 64 and cs + 2 <= end:
        pos = cs + 2
        while pos + 4 <= end:
            n['children'].append(_node('cap-tuple', pos, pos, pos + 4))
            pos += 4


def tree_open(b: bytes) -> dict:
    root = _node('open', 0, 0, len(b))
    if len(b) < 10:
        return root
    root['children'].append(_node('open-header', 0, 0, 9))
    if b[9] == 255 and len(b) >= 13 and b[10] == 255:
        ln = _u16(b, 11)
        if 13 + ln > len(b):
            return root
        params = _node('parameters', 9, 13, 13 + ln, (11, 2, 1, 0))
        tw, lw = 1, 2
    else:
        if 10 + b[9] > len(b):
            return root
        params = _node('parameters', 9, 10, 10 + b[9], (9, 1, 1, 0))
        tw, lw = 1, 1
    root['children'].append(params)

    def inside(b2: bytes, p: dict) -> None:
        if b2[p['start']] == 2:
            _tlv_run(b2, p['cstart'], p['end'], p, 'capability', 1, 1, 0, _capability_inside)

    _tlv_run(b, params['cstart'], params['end'], params, 'parameter', tw, lw, 0, inside)
    return root


def tree_other(msg_type: int, b: bytes) -> dict:
    root = _node(f'type-{msg_type}', 0, 0, len(b))
    if msg_type == 6 and len(b) >= 4 and 4 + _u16(b, 2) <= len(b):
        root['children'].append(_node('operational', 0, 4, 4 + _u16(b, 2), (2, 2, 1, 0)))
    elif msg_type == 3 and len(b) >= 2:
        root['children'].append(_node('notification-data', 2, 2, len(b)))
        if len(b) >= 3 and 3 + b[2] <= len(b):
            root['children'][0]['children'].append(_node('shutdown-communication', 2, 3, 3 + b[2], (2, 1, 1, 0)))
    return root


def tree_for(msg_type: int, b: bytes, asn4: bool = True, addpath_for=lambda a, s: False) -> dict:
    if msg_type == 2:
        return tree_update(b, asn4, addpath_for)
    if msg_type == 1:
        return tree_open(b)
    return tree_other(msg_type, b)


def flatten(root: dict) -> list[tuple[dict, list[dict]]]:
    """[(node, ancestors nearest last)] in document order, the root excluded"""
    out = []

    def walk(n: dict, chain: list[dict]) -> None:
        for c in n['children']:
            out.append((c, chain))
            walk(c, chain + [c])

    walk(root, [])
    return out


# ---------------------------------------------------------------------------- one corruption

OPS = ['len-delta', 'len-zero', 'len-max', 'len-overrun', 'empty', 'truncate', 'truncate-repaired', 'truncate-inner', 'duplicate', 'delete', 'flip', 'set-byte', 'pad']
DELTAS = [1, -1, 2, -2, 3, -3, 4, -4, 7, 8, 16, -16, 100, 255]


def _read(buf: bytearray, lf: tuple) -> int:
    off, width = lf[0], lf[1]
    return int.from_bytes(buf[off : off + width], 'big')


def _write(buf: bytearray, lf: tuple, value: int) -> None:
    off, width = lf[0], lf[1]
    if lf[2] == 'flow' and width == 2:
        value = 0xF000 | (value & 0x0FFF)
    value = max(0, min(value, (1 << (8 * width)) - 1))
    buf[off : off + width] = value.to_bytes(width, 'big')


def _repair(buf: bytearray, nodes: list[dict], delta: int) -> None:
    """the enclosing length fields follow a change of `delta` bytes in what they cover"""
    for n in nodes:
        lf = n['lf']
        if lf is None:
            continue
        unit = lf[2]
        if unit == 'bits':
            _write(buf, lf, _read(buf, lf) + 8 * delta)
        elif unit == 'flow':
            _write(buf, lf, (_read(buf, lf) & (0x0FFF if lf[1] == 2 else 0xFF)) + delta)
        else:
            _write(buf, lf, _read(buf, lf) + delta // unit)


def apply(body: bytes, node: dict, ancestors: list[dict], op: str, a: int, b: int) -> bytes:
    """apply one corruption; a and b are free integers (>= 0) the operation interprets"""
    buf = bytearray(body)
    lf = node['lf']
    start, cs, end = node['start'], node['cstart'], node['end']
    size = end - cs
    if op in ('len-delta', 'len-zero', 'len-max', 'len-overrun'):
        if lf is None:
            return bytes(buf)
        if op == 'len-delta':
            _write(buf, lf, _read(buf, lf) + DELTAS[a % len(DELTAS)])
        elif op == 'len-zero':
            _write(buf, lf, 0)
        elif op == 'len-max':
            _write(buf, lf, (1 << (8 * lf[1])) - 1 - (a % 2))
        else:
            # exactly one unit more than what is left in the enclosing structure
            outer_end = ancestors[-1]['end'] if ancestors else len(body)
            unit = lf[2] if isinstance(lf[2], int) else 1
            _write(buf, lf, (outer_end - cs) // unit + 1 + lf[3] if lf[2] != 'bits' else 8 * (outer_end - cs) + 1 + (a % 8))
        return bytes(buf)
    if op == 'empty':
        del buf[cs:end]
        _repair(buf, [node] + ancestors, -size)
        return bytes(buf)
    if op == 'truncate':
        # the message ends at a boundary of this TLV or inside it; nothing is repaired
        cut = [start, cs, end][a % 3] if b % 2 == 0 or size < 2 else cs + 1 + (b // 2) % (size - 1)
        return bytes(buf[:cut])
    if op in ('truncate-repaired', 'truncate-inner'):
        if size < 1:
            return bytes(buf)
        keep = a % size  # bytes of content kept, 0..size-1
        removed = size - keep
        del buf[cs + keep : end]
        # truncate-repaired: every length follows, the TLV is simply too short for its type
        # truncate-inner: the TLV still claims its old length, the enclosing ones were shortened (nested overrun)
        _repair(buf, ([node] if op == 'truncate-repaired' else []) + ancestors, -removed)
        return bytes(buf)
    if op == 'duplicate':
        chunk = bytes(buf[start:end])
        times = [1, 1, 2, 5][b % 4]
        buf[end:end] = chunk * times
        _repair(buf, ancestors, len(chunk) * times)
        return bytes(buf)
    if op == 'delete':
        del buf[start:end]
        _repair(buf, ancestors, -(end - start))
        return bytes(buf)
    if op == 'flip':
        if end <= start:
            return bytes(buf)
        pos = start + a % (end - start)
        buf[pos] ^= [1, 2, 4, 8, 16, 32, 64, 128, 255][b % 9]
        return bytes(buf)
    if op == 'set-byte':
        if end <= start:
            return bytes(buf)
        pos = start + a % (end - start)
        buf[pos] = [0, 255, 127, 128, 1, 64][b % 6]
        return bytes(buf)
    if op == 'pad':
        extra = bytes([[0, 255, 1][b % 3]]) * (1 + a % 9)
        buf[end:end] = extra
        _repair(buf, [node] + ancestors, len(extra))
        return bytes(buf)
    raise ValueError(op)
