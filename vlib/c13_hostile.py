"""c13_hostile - well-formed messages in which every peer-chosen string is hostile (nothing here imports exabgp)

A case is JSON-able:
  {'kind': 'open' | 'notification' | 'operational' | 'unknown-attr' | 'bgpls' | 'prefix-sid',
   'slots': [ {'label': str, 'hex': str, ...kind specific...} ],  ...kind specific parameters... }

build(case, benign=False) -> (message type, body bytes).  With benign=True every slot payload is replaced by as many
'a' octets: the twin message the differential ("no field added / removed / forged") oracle compares with.
"""

from __future__ import annotations

import struct

from hypothesis import strategies as st

from vlib.refwire import build

# ---------------------------------------------------------------------------- the pool

_TEXT_POOL = [
    '"',
    '\\',
    'a"b',
    'a\\"b',
    '\\u0041\\n',
    'tab\there',
    'line1\nline2',
    'a\r\nb',
    '\r',
    '\x00',
    'a\x00b',
    '\x7f',
    '\x1b[31mred\x1b[0m',
    '\x08\x0c\x0b\x01',
    '\u00e9',
    'caf\u00e9-router',
    '\u6f22\u5b57',
    '\U0001f600',
    'a\u2028b',
    'a\u2029b',
    '\u0085',
    'x\u009bK',
    '\u202eevil',
    '\ufeffbom',
    '", "state": "down',
    '"}, {"exabgp',
    '" } } }\n{ "exabgp": "6.0.0", "type": "state", "neighbor": { "state": "down" } }',
    '", "exabgp": "6.0.0',
    '"exabgp": "6.0.0"',
    'neighbor 1.2.3.4 down',
    '\nneighbor 127.0.0.1 down - forged\n',
    'x\nneighbor 127.13.0.1 receive update start',
    ') ]',
    '), Software(forged',
    ' ] header 00 body 00',
    "' ]",
    '%s %d {0} {} %(x)s',
    '{"a": 1}',
    '[1, 2]',
    'true',
    'null',
    '123',
    '0x41',
    '-1',
    '1e400',
    ' ',
    '  leading and trailing  ',
    '</script><script>alert(1)</script>',
    'a' * 64,
    'x' * 255,
    '"' * 255,
    '\\' * 255,
    '\n' * 255,
    '\u00e9' * 127,
    '\u6f22' * 85,
    '\U0001f600' * 63,
]
_BYTES_POOL = [
    b'\xff\xfe',
    b'\xff',
    b'\xc3',
    b'\xe6\xbc',
    b'abc\xe6\xbc',
    b'\xf0\x9f\x98',
    b'\xed\xa0\x80',  # a surrogate, encoded
    b'\xc0\xaf',  # overlong '/'
    b'\x80\x81\x9b',
    b'ok\xffok',
    bytes(range(0, 32)),
    bytes(range(127, 160)),
    bytes(range(256))[:255],
]
POOL = [s.encode('utf-8') for s in _TEXT_POOL] + _BYTES_POOL


def hostile(max_len: int = 255, min_len: int = 0):
    base = st.one_of(
        st.sampled_from(POOL),
        st.sampled_from(POOL),
        st.binary(max_size=40),
        st.text(max_size=24).map(lambda s: s.encode('utf-8', 'surrogatepass')),
        st.tuples(st.sampled_from(POOL), st.sampled_from(POOL)).map(lambda t: t[0][:100] + t[1][:100]),
        st.tuples(st.sampled_from([b'router-', b'core1.', b'"', b'a']), st.sampled_from(POOL), st.sampled_from([b'', b'.example', b'"', b'\n'])).map(lambda t: t[0] + t[1][:200] + t[2]),
    )
    return base.map(lambda b: b[:max_len]).filter(lambda b: len(b) >= min_len)


def describe(raw: bytes) -> list:
    """coarse classes of one hostile payload (coverage of the pool)"""
    out = set()
    try:
        text = raw.decode('utf-8')
    except UnicodeDecodeError:
        out.add('pay:invalid-utf8')
        text = raw.decode('utf-8', 'replace')
    if any(ord(c) > 127 for c in text):
        out.add('pay:non-ascii')
    if '"' in text:
        out.add('pay:quote')
    if '\\' in text:
        out.add('pay:backslash')
    if '\n' in text or '\r' in text:
        out.add('pay:newline')
    if any(ord(c) < 0x20 and c not in '\r\n' for c in text) or '\x7f' in text:
        out.add('pay:control')
    if any(c in text for c in ('\u2028', '\u2029', '\x85')):
        out.add('pay:unicode-line-separator')
    if len(raw) >= 200:
        out.add('pay:long')
    if not raw:
        out.add('pay:empty')
    return sorted(out)


# ---------------------------------------------------------------------------- cases

UNKNOWN_ATTR_CODES = [0x63, 0x99, 0xF0, 0xFE]
BGPLS_STRING_TLVS = {
    1026: 'bgpls-node-name',
    1098: 'bgpls-link-name',
    1025: 'bgpls-node-opaque',
    1097: 'bgpls-link-opaque',
    1157: 'bgpls-prefix-opaque',
}
BGPLS_UNKNOWN_TLVS = [9999, 1200, 65000]


@st.composite
def open_cases(draw):
    slots = []
    if draw(st.integers(0, 5)) > 0:
        slots.append({'label': 'hostname', 'hex': draw(hostile(255)).hex()})
        slots.append({'label': 'domainname', 'hex': draw(st.one_of(st.just(b''), st.just(b'example.com'), hostile(200))).hex()})
    if draw(st.integers(0, 3)) > 0 or not slots:
        slots.append({'label': 'software-version', 'hex': draw(hostile(255)).hex()})
    if draw(st.integers(0, 3)) == 0:
        slots.append({'label': 'unknown-capability', 'hex': draw(hostile(200)).hex(), 'code': draw(st.sampled_from([0, 10, 66, 100, 128, 200, 255]))})
    return {
        'kind': 'open',
        'slots': slots,
        'grouping': draw(st.sampled_from(['each', 'one'])),
        'asn4': draw(st.booleans()),
        'operational': draw(st.booleans()),
        'gr': draw(st.booleans()),
    }


@st.composite
def notification_cases(draw):
    style = draw(st.sampled_from(['shutdown', 'shutdown', 'shutdown', 'shutdown-badlen', 'shutdown-trailer', 'other']))
    if style == 'other':
        code, sub = draw(st.sampled_from([(1, 1), (2, 2), (2, 7), (3, 1), (3, 5), (4, 0), (5, 0), (6, 1), (6, 3), (6, 5), (6, 9), (7, 1), (9, 9), (0, 0)]))
        return {'kind': 'notification', 'code': code, 'subcode': sub, 'style': 'raw', 'slots': [{'label': 'notification-data', 'hex': draw(hostile(255)).hex()}]}
    sub = draw(st.sampled_from([2, 4]))
    comm = draw(hostile(255 if draw(st.booleans()) else 128))
    case = {'kind': 'notification', 'code': 6, 'subcode': sub, 'style': style, 'slots': [{'label': 'shutdown-communication', 'hex': comm.hex()}]}
    if style == 'shutdown-badlen':
        case['declared'] = draw(st.integers(0, 255))
    if style == 'shutdown-trailer':
        case['slots'].append({'label': 'shutdown-trailer', 'hex': draw(hostile(40, 1)).hex()})
    return case


@st.composite
def operational_cases(draw):
    style = draw(st.sampled_from(['adm', 'asm', 'adm', 'asm', 'unknown']))
    if style == 'unknown':
        return {'kind': 'operational', 'what': draw(st.sampled_from([0, 9, 10, 13, 100, 0xFFFE, 0xFFFF])), 'slots': [{'label': 'operational-unknown-data', 'hex': draw(hostile(255)).hex()}]}
    fam = draw(st.sampled_from([(1, 1), (2, 1), (1, 128), (25, 70), (16388, 71), (0, 0), (3, 3), (65535, 255)]))
    big = draw(st.integers(0, 7)) == 0
    pay = draw(hostile(255))
    if big:
        pay = (pay or b'x') * (2100 // max(1, len(pay)) + 1)
        pay = pay[: draw(st.sampled_from([2047, 2048, 2049, 3000]))]
    return {'kind': 'operational', 'what': 1 if style == 'adm' else 2, 'afi': fam[0], 'safi': fam[1], 'slots': [{'label': 'operational-advisory', 'hex': pay.hex()}]}


@st.composite
def unknown_attr_cases(draw):
    n = draw(st.sampled_from([1, 1, 2, 3]))
    codes = draw(st.lists(st.sampled_from(UNKNOWN_ATTR_CODES), min_size=n, max_size=n, unique=True))
    slots = []
    for code in codes:
        flags = draw(st.sampled_from([0xC0, 0xE0, 0x80, 0xC0]))
        slots.append({'label': 'unknown-attribute', 'hex': draw(hostile(255)).hex(), 'code': code, 'flags': flags})
    return {'kind': 'unknown-attr', 'slots': slots, 'shape': draw(st.sampled_from(['announce', 'announce', 'withdraw', 'mp-announce', 'attributes-only']))}


@st.composite
def bgpls_cases(draw):
    codes = draw(st.lists(st.sampled_from(sorted(BGPLS_STRING_TLVS)), min_size=1, max_size=4, unique=True))
    slots = [{'label': BGPLS_STRING_TLVS[c], 'hex': draw(hostile(255)).hex(), 'tlv': c} for c in codes]
    for _ in range(draw(st.sampled_from([0, 0, 1, 2]))):
        slots.append({'label': 'bgpls-unknown-tlv', 'hex': draw(hostile(255)).hex(), 'tlv': draw(st.sampled_from(BGPLS_UNKNOWN_TLVS))})
    slots = list(draw(st.permutations(slots)))
    return {'kind': 'bgpls', 'slots': slots, 'fixed': draw(st.booleans()), 'shape': draw(st.sampled_from(['announce', 'announce', 'withdraw', 'ls-nlri']))}


@st.composite
def prefix_sid_cases(draw):
    slots = []
    for _ in range(draw(st.sampled_from([1, 1, 2]))):
        where = draw(st.sampled_from(['tlv', 'sub-tlv', 'sub-sub-tlv']))
        code = draw(st.sampled_from([2, 4, 7, 100, 255])) if where == 'tlv' else draw(st.sampled_from([2, 3, 9, 200]))
        slots.append({'label': f'prefix-sid-unknown-{where}', 'hex': draw(hostile(255)).hex(), 'where': where, 'code': code})
    return {'kind': 'prefix-sid', 'slots': slots, 'label_index': draw(st.booleans()), 'l2': draw(st.booleans())}


@st.composite
def sr_policy_cases(draw):
    slots = []
    if draw(st.integers(0, 4)) > 0:
        slots.append({'label': 'sr-policy-name', 'hex': draw(hostile(255)).hex(), 'sub': 130})
    if draw(st.integers(0, 2)) > 0 or not slots:
        slots.append({'label': 'sr-candidate-path-name', 'hex': draw(hostile(255)).hex(), 'sub': 129})
    if draw(st.integers(0, 3)) == 0:
        slots.append({'label': 'tunnel-unknown-sub-tlv', 'hex': draw(hostile(255)).hex(), 'sub': draw(st.sampled_from([1, 99, 127, 131, 255]))})
    if draw(st.integers(0, 3)) == 0:
        slots.append({'label': 'tunnel-unknown-type', 'hex': draw(hostile(255)).hex(), 'tunnel': draw(st.sampled_from([0, 1, 8, 16, 65535]))})
    return {'kind': 'sr-policy', 'slots': slots, 'shape': draw(st.sampled_from(['sr-policy-nlri', 'sr-policy-nlri', 'announce']))}


def cases():
    return st.one_of(open_cases(), open_cases(), notification_cases(), notification_cases(), operational_cases(), operational_cases(), unknown_attr_cases(), bgpls_cases(), bgpls_cases(), prefix_sid_cases(), sr_policy_cases())


# ---------------------------------------------------------------------------- builders

PEER_AS = 65001
ROUTER_ID = 0x0A000002

BASE_ATTRS = build.attribute(0x40, 1, b'\x00') + build.attribute(0x40, 2, build.aspath([(2, [PEER_AS])], True)) + build.attribute(0x40, 3, build.ip('10.0.0.2'))
BASE_NLRI = build.nlri({'prefix': '192.0.2.0/24'}, False)

# a BGP-LS node NLRI (qa/decoding/bgp-ls vectors: protocol ospf, one local node descriptor) behind an IPv4 next hop
LS_NODE_NLRI = bytes.fromhex('0001' '002d' '03' '0000000000000000' '0100' '0020' '02000004' '00000001' '02010004' 'c0a87a7e' '02020004' '00000000' '02030004' '0a0a0a0a')


def payload(slot: dict, benign: bool) -> bytes:
    raw = bytes.fromhex(slot['hex'])
    return b'a' * len(raw) if benign else raw


def entry_nlri() -> bytes:
    return BASE_NLRI


def build_open(case: dict, benign: bool) -> bytes:
    caps = [build.cap_mp(1, 1), build.cap_mp(2, 1)]
    if case['asn4']:
        caps.append(build.cap_asn4(PEER_AS))
    if case.get('gr'):
        caps.append(build.cap_gr(0x8, 120, [(1, 1, 0x80)]))
    if case.get('operational'):
        caps.append(build.capability(0xB9, b''))
    by = {s['label']: s for s in case['slots']}
    if 'hostname' in by:
        host = payload(by['hostname'], benign)
        dom = payload(by['domainname'], benign)
        caps.append(build.capability(73, bytes([len(host)]) + host + bytes([len(dom)]) + dom))
    if 'software-version' in by:
        sw = payload(by['software-version'], benign)
        caps.append(build.capability(75, bytes([len(sw)]) + sw))
    if 'unknown-capability' in by:
        caps.append(build.capability(by['unknown-capability']['code'], payload(by['unknown-capability'], benign)))
    # a capability value is at most 255 octets (host + domain are drawn to fit); RFC 9072 form when the parameters do not fit
    return build.open_with_caps(PEER_AS, 90, ROUTER_ID, caps, grouping=case['grouping'])


def fits_open(case: dict) -> bool:
    by = {s['label']: s for s in case['slots']}
    if 'hostname' in by and len(by['hostname']['hex']) // 2 + len(by['domainname']['hex']) // 2 + 2 > 255:
        return False
    if 'software-version' in by and len(by['software-version']['hex']) // 2 + 1 > 255:
        return False
    return True


def build_notification(case: dict, benign: bool) -> bytes:
    first = payload(case['slots'][0], benign)
    if case['style'] == 'raw':
        return build.notification(case['code'], case['subcode'], first)
    declared = case.get('declared', len(first))
    data = bytes([declared & 0xFF]) + first
    if case['style'] == 'shutdown-trailer':
        data += payload(case['slots'][1], benign)
    return build.notification(case['code'], case['subcode'], data)


def build_operational(case: dict, benign: bool) -> bytes:
    pay = payload(case['slots'][0], benign)
    if 'afi' in case:
        value = struct.pack('!HB', case['afi'], case['safi']) + pay
    else:
        value = pay
    return struct.pack('!HH', case['what'], len(value)) + value


def _update_shape(shape: str, extra_attrs: bytes) -> bytes:
    if shape == 'withdraw':
        return build.update_body(BASE_NLRI, extra_attrs, b'')
    if shape == 'attributes-only':
        return build.update_body(b'', build.attribute(0x40, 1, b'\x00') + build.attribute(0x40, 2, b'') + extra_attrs, b'')
    if shape == 'mp-announce':
        mp = build.mp_reach(2, 1, ['2001:db8::2'], [{'prefix': '2001:db8:1::/48'}], False)
        attrs = build.attribute(0x40, 1, b'\x00') + build.attribute(0x40, 2, build.aspath([(2, [PEER_AS])], True)) + build.attribute(0x90, 14, mp)
        return build.update_body(b'', attrs + extra_attrs, b'')
    if shape == 'ls-nlri':
        mp = struct.pack('!HBB', 16388, 71, 4) + build.ip('10.0.0.2') + b'\x00' + LS_NODE_NLRI
        attrs = build.attribute(0x40, 1, b'\x00') + build.attribute(0x40, 2, b'') + build.attribute(0x40, 5, struct.pack('!L', 100)) + build.attribute(0x90, 14, mp)
        return build.update_body(b'', attrs + extra_attrs, b'')
    return build.update_body(b'', BASE_ATTRS + extra_attrs, BASE_NLRI)


def build_unknown_attr(case: dict, benign: bool) -> bytes:
    extra = b''.join(build.attribute(s['flags'], s['code'], payload(s, benign)) for s in case['slots'])
    return _update_shape(case['shape'], extra)


def build_bgpls(case: dict, benign: bool) -> bytes:
    tlvs = b''
    if case.get('fixed'):
        tlvs += struct.pack('!HH', 1095, 3) + b'\x00\x00\x0a'  # igp-metric 10
    for s in case['slots']:
        pay = payload(s, benign)
        tlvs += struct.pack('!HH', s['tlv'], len(pay)) + pay
    return _update_shape(case['shape'], build.attribute(0x80, 29, tlvs))


def build_prefix_sid(case: dict, benign: bool) -> bytes:
    def tlv1(code: int, value: bytes) -> bytes:
        return bytes([code]) + struct.pack('!H', len(value)) + value

    tlvs = b''
    if case.get('label_index'):
        tlvs += tlv1(1, b'\x00' + b'\x00\x00' + struct.pack('!L', 7))
    subs = b''
    subsubs = b''
    for s in case['slots']:
        pay = payload(s, benign)
        if s['where'] == 'tlv':
            tlvs += tlv1(s['code'], pay)
        elif s['where'] == 'sub-tlv':
            subs += tlv1(s['code'], pay)
        else:
            subsubs += tlv1(s['code'], pay)
    if subs or subsubs:
        if subsubs:
            sid = b'\x00' + build.ip('2001:db8:0:1::') + b'\x00' + struct.pack('!H', 0x13) + b'\x00'
            structure = tlv1(1, bytes([40, 24, 16, 0, 16, 64]))
            subs = tlv1(1, sid + structure + subsubs) + subs
        tlvs += tlv1(6 if case.get('l2') else 5, b'\x00' + subs)
    return _update_shape('announce', build.attribute(0xC0, 40, tlvs))


def build_sr_policy(case: dict, benign: bool) -> bytes:
    def sub(code: int, value: bytes) -> bytes:
        return bytes([code]) + (bytes([len(value)]) if code < 128 else struct.pack('!H', len(value))) + value

    subs = sub(12, b'\x00\x00' + struct.pack('!L', 100))
    tunnels = b''
    for s in case['slots']:
        pay = payload(s, benign)
        if 'sub' in s:
            if s['sub'] < 128:
                pay = pay[:254]
            # policy name / candidate path name: one flags / reserved octet, then the name
            subs += sub(s['sub'], (b'\x00' if s['sub'] in (129, 130) else b'') + pay)
        else:
            tunnels += struct.pack('!HH', s['tunnel'], len(pay)) + pay
    # segment list: reserved, weight 1, one type A segment (label 16000)
    subs += sub(128, b'\x00' + bytes([9, 6, 0, 0]) + struct.pack('!L', 1) + bytes([1, 6, 0, 0]) + struct.pack('!L', (16000 << 12) | 0x1FF))
    attr = build.attribute(0xC0, 23, struct.pack('!HH', 15, len(subs)) + subs + tunnels)
    if case['shape'] == 'announce':
        return _update_shape('announce', attr)
    # SR policy NLRI (afi 1 safi 73): length in bits, distinguisher, color, endpoint
    nlri = bytes([96]) + struct.pack('!LL', 1, 100) + build.ip('192.0.2.9')
    mp = struct.pack('!HBB', 1, 73, 4) + build.ip('10.0.0.2') + b'\x00' + nlri
    attrs = build.attribute(0x40, 1, b'\x00') + build.attribute(0x40, 2, b'') + build.attribute(0x40, 5, struct.pack('!L', 100)) + build.attribute(0x90, 14, mp)
    return build.update_body(b'', attrs + attr, b'')


BUILDERS = {
    'open': (1, build_open),
    'notification': (3, build_notification),
    'operational': (6, build_operational),
    'unknown-attr': (2, build_unknown_attr),
    'bgpls': (2, build_bgpls),
    'prefix-sid': (2, build_prefix_sid),
    'sr-policy': (2, build_sr_policy),
}


def build_case(case: dict, benign: bool = False) -> tuple[int, bytes]:
    msg_type, fn = BUILDERS[case['kind']]
    return msg_type, fn(case, benign)


def peer_open_all(families: list, asn4: bool = True, addpath: bool = False, extra: list | None = None) -> bytes:
    """the OPEN of a peer offering every family we know (the session the UPDATEs of this module arrive on)"""
    caps = [build.cap_mp(a, s) for a, s in families]
    if asn4:
        caps.append(build.cap_asn4(PEER_AS))
    if addpath:
        caps.append(build.cap_addpath([(a, s, 3) for a, s in families]))
    caps.append(build.cap_refresh())
    caps.append(build.cap_ext_msg())
    caps.append(build.capability(0xB9, b''))  # operational
    caps += extra or []
    return build.open_with_caps(PEER_AS, 90, ROUTER_ID, caps, grouping='each')
