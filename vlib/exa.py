"""exa.py - thin adapters onto exabgp entry points (the code under test is imported from /repo/src)"""

from __future__ import annotations

import os
import sys

REPO_SRC = os.environ.get('VERIF_REPO_SRC', '/repo/src').rstrip('/')
assert any(p.rstrip('/') == REPO_SRC for p in sys.path), 'checks must import exabgp from /repo/src'
os.environ.setdefault('exabgp_log_enable', 'false')

from exabgp.bgp.message import Message, Open  # noqa: E402
from exabgp.bgp.message.direction import Direction  # noqa: E402
from exabgp.bgp.message.notification import Notify  # noqa: E402
from exabgp.bgp.message.open import Version  # noqa: E402
from exabgp.bgp.message.open.capability import Capabilities, Negotiated  # noqa: E402
from exabgp.configuration.configuration import Configuration  # noqa: E402

import exabgp  # noqa: E402

# what application/server.py does at start-up and a library import does not: the daemon runs with the attribute cache
# switched on (exabgp.cache.attributes defaults to true), so the checks do too
from exabgp.bgp.message.update.attribute.attribute import Attribute as _Attribute  # noqa: E402
from exabgp.environment import getenv as _getenv  # noqa: E402

if _getenv().cache.attributes:
    _Attribute.caching = _getenv().cache.attributes

assert exabgp.__file__.startswith(REPO_SRC + '/'), exabgp.__file__


class ConfigError(Exception):
    pass


def configuration_from_text(text: str) -> Configuration:
    conf = Configuration([text], text=True)
    if conf.reload() is not True:
        raise ConfigError(str(conf.error))
    return conf


def neighbor_from_text(text: str):
    conf = configuration_from_text(text)
    neighbors = list(conf.neighbors.values())
    if len(neighbors) != 1:
        raise ConfigError(f'{len(neighbors)} neighbors')
    return conf, neighbors[0]


def neighbor_text(
    peer_ip: str = '127.0.0.2',
    local_ip: str = '127.0.0.1',
    local_as: int = 65000,
    peer_as: int = 65000,
    router_id: str = '1.2.3.4',
    hold: int | None = None,
    families: list[str] | None = None,
    capability: dict[str, str] | None = None,
    addpath_families: list[str] | None = None,
    nexthop: list[str] | None = None,
    extra: str = '',
    body: str = '',
) -> str:
    out = [f'neighbor {peer_ip} {{', f'  router-id {router_id};', f'  local-address {local_ip};', f'  local-as {local_as};', f'  peer-as {peer_as};']
    if hold is not None:
        out.append(f'  hold-time {hold};')
    if extra:
        out.append(extra)
    if capability:
        out.append('  capability {')
        for k, v in capability.items():
            out.append(f'    {k} {v};')
        out.append('  }')
    if families is not None:
        out.append('  family {')
        for f in families:
            out.append(f'    {f};')
        out.append('  }')
    if addpath_families:
        out.append('  add-path {')
        for f in addpath_families:
            out.append(f'    {f};')
        out.append('  }')
    if nexthop:
        out.append('  nexthop {')
        for f in nexthop:
            out.append(f'    {f};')
        out.append('  }')
    if body:
        out.append(body)
    out.append('}')
    return '\n'.join(out) + '\n'


def our_open(neighbor, restarted: bool = False) -> Open:
    """the OPEN the way Protocol.new_open builds it"""
    return Open.make_open(
        Version(4),
        neighbor.session.local_as,
        neighbor.hold_time,
        neighbor.session.router_id,
        Capabilities().new(neighbor, restarted),
    )


def negotiate(neighbor, peer_open_body: bytes, direction=Direction.OUT, sent: Open | None = None) -> Negotiated:
    """the Negotiated the way Peer/Protocol build it: our OPEN via sent(), the peer's decoded bytes via received()"""
    neg = Negotiated.make_negotiated(neighbor, direction)
    neg.sent(sent or our_open(neighbor))
    received = Message.unpack(Message.CODE.OPEN, peer_open_body, neg)
    neg.received(received)
    return neg


def reset_global_state() -> None:
    """forget process-wide caches the decoders keep (used between independent cases)"""
    from exabgp.bgp.message.update.attribute.collection import AttributeCollection

    for name in ('cached', 'previous'):
        if hasattr(AttributeCollection, name):
            try:
                setattr(AttributeCollection, name, None if name == 'cached' else b'')
            except Exception:  # noqa: BLE001
                pass
    try:
        from exabgp.bgp.message.update.attribute.attribute import Attribute

        for cache in Attribute.cache.values():
            cache.clear()
    except Exception:  # noqa: BLE001
        pass


__all__ = ['Configuration', 'Message', 'Open', 'Notify', 'Negotiated', 'Direction', 'Capabilities']


def render_update_json(neighbor, message, negotiated, version: str | None = None, direction: str = 'receive') -> str:
    """the JSON event the way Processes._update produces it (Update -> .data, EOR as is)"""
    from exabgp.reactor.api.response import Response
    from exabgp.version import json as json_version

    collection = message if getattr(message, 'IS_EOR', False) else message.data
    encoder = Response.JSON(version or json_version)
    return encoder.update(neighbor, direction, collection, b'', b'', negotiated)
