"""scenario.py - a small interpreter for scripted remote-speaker schedules on top of netharness (C05, C10, C11).

A schedule is a JSON list of ops:
  ['policy', ok]            outgoing connects from now on succeed / fail
  ['wait', seconds]         virtual delay
  ['in']                    the remote opens a TCP connection to exabgp (the new transport becomes the current one)
  ['select', i]             choose the transport later sends go to (index into the list of transports, negative from the end)
  ['handshake']             wait for exabgp's OPEN on the current transport, answer OPEN + KEEPALIVE, wait for its KEEPALIVE
  ['open', variant]         send an OPEN ('valid', 'rid-low', 'rid-high', or a fault variant: see OPEN_FAULTS)
  ['ka'] ['update'] ['eor'] ['refresh'] ['notif', code, subcode]
  ['fault', name]           send one erroneous input (see FAULTS)
  ['raw', hex]              send these bytes
  ['fault-close', name, rst] send one erroneous input and close (or reset) the transport in the same step
  ['partial', kind, n]      send only the first n bytes of a valid message
  ['eof'] ['rst'] ['halfclose']
  ['teardown', code]        API-level teardown of the neighbor (Reactor.teardown_peer)
  ['reload']                configuration reload through the signal flag
  ['reload-remove']         the same after the neighbor was taken out of the configuration file
  ['shutdown']              the shutdown signal
  ['api', line]             a command line from the API process
"""

from __future__ import annotations

import struct

from vlib import exa
from vlib import netharness as nh
from vlib.refwire import build, codec

PEER_AS = 65001
LOCAL_AS = 65000
OUR_RID = '10.0.0.5'
OUR_RID_INT = 0x0A000005

CAPS = [build.cap_mp(1, 1), build.cap_mp(2, 1), build.cap_asn4(PEER_AS), build.cap_refresh(), build.cap_erefresh()]
# capabilities every OPEN of the remote speaker carries on top of CAPS while a case runs (set and emptied by the check)
EXTRA_CAPS: list = []


def open_body(variant: str = 'valid', hold: int = 30, without: list | None = None) -> bytes:
    rid = 0x0A000009  # higher than ours
    asn = PEER_AS
    version = 4
    caps = [c for c in list(CAPS) + list(EXTRA_CAPS) if not without or c not in without]
    params = None
    if variant == 'rid-low':
        rid = 0x0A000001
    elif variant == 'bad-version':
        version = 3
    elif variant == 'bad-as':
        asn = 64999
        caps[2] = build.cap_asn4(64999)
    elif variant == 'rid-zero':
        rid = 0
    elif variant == 'hold-1':
        hold = 1
    elif variant == 'hold-2':
        hold = 2
    elif variant == 'auth-param':
        params = [(1, b'\x00\x01')] + [(2, c) for c in caps]
    elif variant == 'hold-0':
        hold = 0
    if params is None:
        params = [(2, c) for c in caps]
    body = build.open_body(version, asn if asn <= 65535 else 23456, hold, rid, params)
    if variant == 'truncated-cap':
        body = body[:-3]
        body = body[:9] + bytes([len(body) - 10 + 3]) + body[10:]  # optional parameter length runs past the message
    elif variant == 'short':
        body = body[:8]
    return body


# expected (code, subcode) sets per OPEN fault (RFC 4271 6.2, RFC 6286); truncated forms may be 2/0 or 1/2
OPEN_FAULTS = {
    'bad-version': {(2, 1)},
    'bad-as': {(2, 2)},
    'rid-zero': {(2, 3)},
    'hold-1': {(2, 6)},
    'hold-2': {(2, 6)},
    'auth-param': {(2, 5)},
    'truncated-cap': {(2, 0), (1, 2)},
}

UPDATE_OK = bytes.fromhex('0000000e40010100400200400304010203041814000a')  # 20.0.10.0/24 via 1.2.3.4, empty AS_PATH
UPDATE_EBGP = build.update_body(
    b'',
    build.attribute(0x40, 1, b'\x00') + build.attribute(0x40, 2, build.aspath([(2, [PEER_AS])], True)) + build.attribute(0x40, 3, build.ip('1.2.3.4')),
    build.nlri({'prefix': '20.0.10.0/24'}, False),
)


def fault_bytes(name: str) -> bytes:
    """one erroneous input as raw bytes on the wire"""
    M = codec.MARKER
    if name == 'bad-marker':
        return b'\xff' * 15 + b'\x00' + struct.pack('!HB', 19, 4)
    if name == 'length-short':
        return M + struct.pack('!HB', 18, 4)
    if name == 'length-long':
        return M + struct.pack('!HB', 4097, 2) + bytes(100)
    if name == 'keepalive-length':
        return M + struct.pack('!HB', 20, 4) + b'\x00'
    if name == 'update-length':
        return M + struct.pack('!HB', 21, 2) + b'\x00\x00'
    if name == 'notification-length':
        return M + struct.pack('!HB', 20, 3) + b'\x06'
    if name == 'refresh-length':
        return M + struct.pack('!HB', 24, 5) + bytes(5)
    if name == 'unknown-type':
        return M + struct.pack('!HB', 19, 9)
    if name in ('open-header-only', 'update-header-only', 'notification-header-only', 'refresh-header-only'):
        # length 19 is right for KEEPALIVE only (RFC 4271 6.1): the other types with no body at all
        return M + struct.pack('!HB', 19, {'open': 1, 'update': 2, 'notification': 3, 'refresh': 5}[name.split('-')[0]])
    if name == 'update-withdrawn-overrun':
        return codec.frame(2, struct.pack('!H', 50) + bytes(6))
    if name == 'update-attr-overrun':
        return codec.frame(2, struct.pack('!H', 0) + struct.pack('!H', 90) + bytes(6))
    if name == 'attr-origin-invalid':
        attrs = build.attribute(0x40, 1, b'\x07') + build.attribute(0x40, 2, build.aspath([(2, [PEER_AS])], True)) + build.attribute(0x40, 3, build.ip('1.2.3.4'))
        return codec.frame(2, build.update_body(b'', attrs, build.nlri({'prefix': '20.0.11.0/24'}, False)))
    if name == 'attr-flags-wellknown-optional':
        attrs = build.attribute(0xC0, 1, b'\x00') + build.attribute(0x40, 2, build.aspath([(2, [PEER_AS])], True)) + build.attribute(0x40, 3, build.ip('1.2.3.4'))
        return codec.frame(2, build.update_body(b'', attrs, build.nlri({'prefix': '20.0.12.0/24'}, False)))
    if name == 'attr-missing-mandatory':
        attrs = build.attribute(0x40, 1, b'\x00') + build.attribute(0x40, 3, build.ip('1.2.3.4'))
        return codec.frame(2, build.update_body(b'', attrs, build.nlri({'prefix': '20.0.13.0/24'}, False)))
    if name == 'mp-reach-truncated':
        attrs = build.attribute(0x40, 1, b'\x00') + build.attribute(0x40, 2, build.aspath([(2, [PEER_AS])], True)) + build.attribute(0x80, 14, struct.pack('!HBB', 2, 1, 16) + bytes(7))
        return codec.frame(2, build.update_body(b'', attrs, b''))
    if name == 'nlri-mask-33':
        attrs = build.attribute(0x40, 1, b'\x00') + build.attribute(0x40, 2, build.aspath([(2, [PEER_AS])], True)) + build.attribute(0x40, 3, build.ip('1.2.3.4'))
        return codec.frame(2, build.update_body(b'', attrs, b'\x21\x0a\x00\x00\x00\x00'))
    if name == 'refresh-bad-subtype':
        return codec.frame(5, struct.pack('!HBB', 1, 9, 1))
    raise ValueError(name)


HEADER_FAULTS = {
    'bad-marker': {(1, 1)},
    'length-short': {(1, 2)},
    'length-long': {(1, 2)},
    'keepalive-length': {(1, 2)},
    'update-length': {(1, 2)},
    'notification-length': {(1, 2)},
    'refresh-length': {(1, 2)},
    'unknown-type': {(1, 3)},
    'open-header-only': {(1, 2)},
    'update-header-only': {(1, 2)},
    'notification-header-only': {(1, 2)},
    'refresh-header-only': {(1, 2)},
}
UPDATE_FAULTS = {
    'update-withdrawn-overrun': {(3, 1)},
    'update-attr-overrun': {(3, 1)},
    'mp-reach-truncated': {(3, 1), (3, 9)},
    'nlri-mask-33': {(3, 10), (3, 1)},
}
# RFC 7606 treat-as-withdraw / RFC 4271 session reset both acceptable: (3,x) or no NOTIFICATION and the session stays up
UPDATE_SOFT_FAULTS = {
    'attr-origin-invalid': {(3, 6)},
    'attr-flags-wellknown-optional': {(3, 4)},
    'attr-missing-mandatory': {(3, 3)},
}


def config(passive: bool = False, hold: int = 30, routes: list[str] | None = None, api: bool = True, extra: str = '', families: list[str] | None = None, mirror_as: bool = False, capability: dict | None = None, api_receive: list[str] | None = None) -> str:
    body = ''
    if api:
        body += nh.api_section(receive=api_receive or ['parsed', 'update', 'notification', 'open', 'keepalive', 'refresh'], send=['parsed', 'update', 'notification', 'open', 'keepalive', 'refresh'])
    if routes:
        body += '\n  static {\n' + '\n'.join(f'    {r};' for r in routes) + '\n  }'
    ex = extra
    if passive:
        ex += '\n  passive true;'
    text = exa.neighbor_text(
        local_as=LOCAL_AS,
        peer_as=PEER_AS,
        router_id=OUR_RID,
        hold=hold,
        families=families or ['ipv4 unicast', 'ipv6 unicast'],
        capability=dict({'asn4': 'enable', 'route-refresh': 'enable'}, **(capability or {})),
        extra=ex.strip('\n'),
        body=body,
    )
    return (nh.process_section() if api else '') + text


class Runner:
    def __init__(self, hn: nh.Harness) -> None:
        self.h = hn
        self.current: nh.Remote | None = None
        self.policy = True
        hn.connect_policy = lambda harness, proto: self.policy
        hn.on_outgoing = self._on_outgoing
        self.trace: list = []
        self.remove: tuple | None = None  # (configuration file, text without the neighbor) for the 'reload-remove' op

    def _on_outgoing(self, remote: nh.Remote) -> None:
        self.current = remote

    def alive(self) -> nh.Remote | None:
        r = self.current
        if r is None or r.closed_at is not None or r.local_closed_at is not None:
            return None
        return r

    async def run(self, ops: list) -> None:
        h = self.h
        for op in ops:
            kind = op[0]
            self.trace.append((h.loop.time(), op))
            if kind == 'policy':
                self.policy = bool(op[1])
            elif kind == 'wait':
                await h.sleep(float(op[1]))
            elif kind == 'in':
                self.current = h.incoming(0)
                await h.sleep(0.01)
            elif kind == 'select':
                if h.remotes:
                    self.current = h.remotes[int(op[1]) % len(h.remotes)]
            elif kind == 'handshake':
                r = self.alive()
                if r is not None:
                    await nh.establish(r, open_body('valid' if len(op) < 2 else op[1], hold=op[2] if len(op) > 2 else 30), timeout=5.0)
            elif kind == 'teardown':
                try:
                    h.reactor.teardown_peer(h.peer_key(0), int(op[1]))
                except KeyError:
                    pass
                h.loop.note_activity()
            elif kind == 'reload':
                h.signal_reload()
            elif kind == 'reload-remove':
                # the configuration file is replaced by one which no longer has the neighbor, then reloaded (needs Runner.remove)
                path, text = self.remove
                with open(path, 'w') as fh:
                    fh.write(text)
                h.signal_reload()
            elif kind == 'shutdown':
                from exabgp.reactor.interrupt import Signal

                h.reactor.signal.received = Signal.SHUTDOWN
                h.loop.note_activity()
            elif kind == 'api':
                h.api_write(op[1].encode() + b'\n')
            else:
                r = self.alive()
                if r is None:
                    continue
                if kind == 'open':
                    await r.send_msg(codec.OPEN, open_body(op[1]))
                elif kind == 'ka':
                    await r.send_msg(codec.KEEPALIVE)
                elif kind == 'update':
                    await r.send_msg(codec.UPDATE, UPDATE_EBGP)
                elif kind == 'eor':
                    await r.send_msg(codec.UPDATE, b'\x00\x00\x00\x00')
                elif kind == 'refresh':
                    await r.send_msg(codec.ROUTE_REFRESH, build.route_refresh(1, 1))
                elif kind == 'notif':
                    await r.send_msg(codec.NOTIFICATION, bytes([op[1], op[2]]))
                elif kind == 'fault':
                    await r.send(fault_bytes(op[1]))
                elif kind == 'fault-close':
                    # the erroneous input and the loss of the transport arrive together: exabgp reads the fault
                    # from a connection it can no longer write to
                    await r.send(fault_bytes(op[1]) if op[1] != 'bad-open' else codec.frame(codec.OPEN, open_body('bad-as')))
                    r.close(reset=bool(op[2]) if len(op) > 2 else False)
                elif kind == 'partial':
                    # the first op[2] bytes of a valid message, then nothing
                    full = {'open': codec.frame(codec.OPEN, open_body('valid')), 'keepalive': codec.frame(codec.KEEPALIVE, b''), 'update': codec.frame(codec.UPDATE, UPDATE_EBGP)}[op[1]]
                    await r.send(full[: max(1, min(int(op[2]), len(full) - 1))])
                elif kind == 'raw':
                    await r.send(bytes.fromhex(op[1]))
                elif kind == 'eof':
                    r.close()
                elif kind == 'rst':
                    r.close(reset=True)
                elif kind == 'halfclose':
                    r.half_close()
                else:
                    raise ValueError(f'unknown op {op}')
            await h.sleep(0)
