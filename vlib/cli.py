"""entry point: python -m vlib.cli (keeps vlib.runner importable under its real name)"""
import sys

from vlib.runner import main

if __name__ == '__main__':
    sys.exit(main())
