"""c13_trees - TLV trees grown from a bank of nodes (the corpus's own TLVs + a few synthetic ones), not from a seed message

The corpus engine edits one vector at a time, so a tree with two registered TLVs of one kind, a registered TLV below an
unregistered one, or three levels each carrying an unknown member shows up rarely.  Here the attribute value is
assembled: every level draws 1-4 nodes from the bank for that level (with replacement, so repeats are common), nested
levels are re-drawn, leaves are now and then replaced by a hostile string or damaged.  The same for the flat
attributes made of fixed-size records (extended communities, IPv6 extended communities, large communities).
The case carries the final UPDATE body.  Nothing here imports exabgp.
"""

from __future__ import annotations

import struct

from hypothesis import strategies as st

from vlib import c13_corpus as corpus
from vlib import c13_hostile as hostile
from vlib import c13_tlv as tlv
from vlib.refwire import build

BANK: dict = {}  # layout name -> {type: [Node]}


def _harvest(nodes: list) -> None:
    for n in nodes:
        slot = BANK.setdefault(n.layout.name, {}).setdefault(n.type, [])
        if len(slot) < 12 and not any(s.value == n.value and s.prefix == n.prefix and (s.kids is None) == (n.kids is None) for s in slot):
            slot.append(n)
        if n.kids is not None:
            _harvest(n.kids)


def _synthetic(layout: tlv.Layout, type_: int, value: bytes) -> None:
    nodes = tlv.parse(type_.to_bytes(layout.tsize, 'big') + len(value).to_bytes(layout.lsize(type_), 'big') + value, layout)
    if nodes:
        _harvest(nodes)


def _build_bank() -> None:
    for i in corpus.UPDATE_SEEDS:
        parts = corpus.seed_parts(i)
        if not parts:
            continue
        for _f, code, value in parts[1]:
            if code in tlv.ATTRIBUTE_LAYOUT:
                nodes = tlv.parse(value, tlv.ATTRIBUTE_LAYOUT[code])
                if nodes:
                    _harvest(nodes)
            elif code in (14, 15) and not corpus.SEEDS[i]['addpath']:
                got = tlv.split_mp(value, code == 14)
                if got and got[0] in tlv.NLRI_LAYOUT:
                    nodes = tlv.parse(got[2], tlv.NLRI_LAYOUT[got[0]])
                    if nodes:
                        _harvest(nodes)
    # what the vectors do not hold
    _synthetic(tlv.BGPLS_ATTR, 1026, b'router-1')
    _synthetic(tlv.BGPLS_ATTR, 1098, b'link-to-core')
    _synthetic(tlv.BGPLS_ATTR, 1025, b'\x01\x02\x03')
    _synthetic(tlv.BGPLS_ATTR, 1097, b'\x04\x05')
    _synthetic(tlv.BGPLS_ATTR, 1157, b'\x06')
    _synthetic(tlv.BGPLS_ATTR, 9999, b'\x00\x01')
    sid = b'\x00' + build.ip('2001:db8:0:1::') + b'\x00' + struct.pack('!H', 0x13) + b'\x00'
    structure = b'\x01' + struct.pack('!H', 6) + bytes([40, 24, 16, 0, 16, 64])
    unknown = b'\x07' + struct.pack('!H', 2) + b'\xab\xcd'
    sid_info = b'\x01' + struct.pack('!H', len(sid + structure + unknown)) + sid + structure + unknown
    for t in (5, 6):
        _synthetic(tlv.PREFIX_SID, t, b'\x00' + sid_info + b'\x09' + struct.pack('!H', 1) + b'\x55')
    _synthetic(tlv.PREFIX_SID, 1, b'\x00\x00\x00' + struct.pack('!L', 7))
    _synthetic(tlv.PREFIX_SID, 3, b'\x00\x00' + b'\x00\x3e\x80' + b'\x00\x03\xe8')
    _synthetic(tlv.PREFIX_SID, 4, b'\x01\x02')
    _synthetic(tlv.TUNNEL_SUB, 129, b'\x00path-1')
    _synthetic(tlv.TUNNEL_SUB, 130, b'\x00policy-1')
    _synthetic(tlv.TUNNEL_SUB, 99, b'\x01\x02')
    _synthetic(tlv.TUNNEL, 8, b'\x04\x04\x0a\x00\x00\x01')


_build_bank()


@st.composite
def level(draw, layout: tlv.Layout, depth: int, desc: list) -> list:
    bank = BANK.get(layout.name, {})
    known = sorted(bank)
    out: list = []
    for _ in range(draw(st.sampled_from([1, 2, 2, 3, 3, 4] if depth == 0 else [0, 1, 1, 2, 2, 3]))):
        roll = draw(st.integers(0, 9))
        if known and roll < 8:
            t = draw(st.sampled_from(known))
            node = draw(st.sampled_from(bank[t])).copy()
        else:
            t = draw(st.sampled_from(tlv.INTERESTING_TYPES.get(layout.name, [0, 255])))
            node = tlv.Node(t, draw(st.binary(max_size=12)), layout)
            nested = layout.child(t)
            if nested and known and draw(st.booleans()):
                # a registered container type drawn blind: give it the fixed part a container of this kind has
                donor = next((b for tt in known for b in bank[tt] if b.kids is not None and tt == t), None)
                if donor is not None:
                    node = donor.copy()
        node.type = t
        if node.kids is not None:
            sub = layout.child(t)
            if sub is not None and draw(st.integers(0, 2)) > 0 and depth < 3:
                node.kids = draw(level(sub[1], depth + 1, desc))
        else:
            roll = draw(st.integers(0, 11))
            if roll == 0:
                keep = draw(st.sampled_from([0, 1]))
                node.value = node.value[:keep] + draw(hostile.hostile(120))
                desc.append(f'{layout.name}:{t}:hostile')
            elif roll == 1 and node.value:
                v = bytearray(node.value)
                v[draw(st.integers(0, len(v) - 1))] = draw(st.integers(0, 255))
                node.value = bytes(v)
            elif roll == 2:
                node.value = node.value[: draw(st.integers(0, len(node.value)))]
            elif roll == 3 and node.value:
                # the values a float / counter field has no good rendering for
                fill = draw(st.sampled_from([b'\xff', b'\x00', b'\x7f\xc0\x00\x00', b'\x7f\x80\x00\x00', b'\xff\x80\x00\x00']))
                node.value = (fill * len(node.value))[: len(node.value)]
                desc.append(f'{layout.name}:{t}:extreme-value')
        out.append(node)
    if out and draw(st.integers(0, 2)) == 0:
        twin = draw(st.sampled_from(out)).copy()
        out.insert(draw(st.integers(0, len(out))), twin)
        desc.append(f'{layout.name}:{twin.type}:repeated')
    return out


EC_HEADS = [
    (0x00, 0x02), (0x00, 0x03), (0x01, 0x02), (0x01, 0x03), (0x02, 0x02), (0x02, 0x03), (0x03, 0x0B), (0x03, 0x0C), (0x06, 0x00), (0x06, 0x01), (0x06, 0x02), (0x06, 0x03),
    (0x80, 0x06), (0x80, 0x07), (0x80, 0x08), (0x80, 0x09), (0x80, 0x0C), (0x81, 0x08), (0x82, 0x08), (0x08, 0x00), (0x0C, 0x00), (0x43, 0x04), (0x40, 0x04), (0x03, 0x0D),
    (0x80, 0x0A), (0x00, 0x0B), (0x09, 0x00), (0x0B, 0x00), (0x06, 0x04), (0x06, 0x0F), (0x88, 0x00), (0x90, 0x00), (0x07, 0x00), (0xFF, 0xFF),
]
FLOATS = [b'\x7f\xc0\x00\x00', b'\xff\xc0\x00\x00', b'\x7f\x80\x00\x00', b'\xff\x80\x00\x00', b'\x7f\x7f\xff\xff', b'\x00\x00\x00\x01', b'\x80\x00\x00\x00', b'\xff\xff\x00\x00', b'\x4f\x00\x00\x00', b'\xcf\x00\x00\x01']


@st.composite
def flat_attribute(draw, desc: list) -> tuple[int, int, bytes]:
    kind = draw(st.sampled_from(['ext', 'ext', 'ext', 'ext6', 'large', 'aigp', 'pmsi']))
    if kind == 'ext':
        items = []
        for _ in range(draw(st.integers(1, 4))):
            head = draw(st.sampled_from(EC_HEADS))
            body = draw(st.one_of(st.binary(min_size=6, max_size=6), st.tuples(st.binary(min_size=2, max_size=2), st.sampled_from(FLOATS)).map(lambda t: t[0] + t[1]), st.sampled_from([b'\x00' * 6, b'\xff' * 6])))
            items.append(bytes(head) + body)
        desc.append('ext-community')
        return 0xC0, 16, b''.join(items)
    if kind == 'ext6':
        items = [bytes(draw(st.sampled_from([(0x00, 0x02), (0x00, 0x03), (0x00, 0x0D), (0x40, 0x02), (0x00, 0x0B), (0xFF, 0xFF)]))) + draw(st.binary(min_size=18, max_size=18)) for _ in range(draw(st.integers(1, 3)))]
        desc.append('ext-community-ipv6')
        return 0xC0, 25, b''.join(items)
    if kind == 'large':
        desc.append('large-community')
        return 0xC0, 32, b''.join(draw(st.binary(min_size=12, max_size=12)) for _ in range(draw(st.integers(1, 3))))
    if kind == 'aigp':
        desc.append('aigp')
        tlvs = b''.join(bytes([draw(st.sampled_from([1, 1, 2, 0]))]) + struct.pack('!H', 11) + draw(st.binary(min_size=8, max_size=8)) for _ in range(draw(st.integers(1, 2))))
        return 0x80, 26, tlvs
    desc.append('pmsi')
    ttype = draw(st.sampled_from([0, 1, 2, 3, 4, 5, 6, 7, 8, 99]))
    ident = draw(st.one_of(st.binary(max_size=24), st.sampled_from([b'', build.ip('10.0.0.1'), build.ip('10.0.0.1') + build.ip('239.1.1.1') + build.ip('10.0.0.2')]), hostile.hostile(40)))
    return 0xC0, 22, bytes([draw(st.sampled_from([0, 1, 255])), ttype]) + draw(st.binary(min_size=3, max_size=3)) + ident


def _samples(asn4: bool) -> dict:
    """one or more valid values for every attribute code exabgp registers: the corpus bank where the encoding does not depend on
    the session, built here where it does (AS_PATH, AGGREGATOR) or where the vectors hold none"""
    out = {c: [v for _f, v in corpus.ATTR_BANK[c]][:8] for c in corpus.ATTR_BANK if c not in (2, 7, 14, 15, 153)}
    out[2] = [build.aspath([(2, [65001, 23456 if not asn4 else 70000])], asn4), build.aspath([(2, [65001]), (1, [64512, 64513])], asn4)]
    out[7] = [(struct.pack('!L', 70000) if asn4 else struct.pack('!H', 23456)) + build.ip('10.0.0.9')]
    out[17] = [build.aspath([(2, [65001, 70000])], True)]
    out[18] = [struct.pack('!L', 70000) + build.ip('10.0.0.9')]
    out[22] = [bytes([0, 6]) + b'\x00\x03\xe8' + build.ip('10.0.0.1'), bytes([0, 0]) + b'\x00\x00\x00']
    out[26] = [b'\x01\x00\x0b' + struct.pack('!Q', 10)]
    out.setdefault(6, [b''])
    out.setdefault(9, [build.ip('10.0.0.7')])
    out.setdefault(10, [build.ip('10.0.0.8')])
    return out


ATTR_FLAGS = {1: 0x40, 2: 0x40, 3: 0x40, 4: 0x80, 5: 0x40, 6: 0x40, 7: 0xC0, 8: 0xC0, 9: 0x80, 10: 0x80, 16: 0xC0, 17: 0xC0, 18: 0xC0, 22: 0xC0, 23: 0xC0, 25: 0xC0, 26: 0x80, 29: 0x80, 32: 0xC0, 40: 0xC0}


@st.composite
def attribute_mix(draw) -> dict:
    """a subset of every attribute code we register, each with a valid value, on one IPv4 route: which pairs collide in the event"""
    asn4 = draw(st.booleans())
    samples = _samples(asn4)
    extra_codes = draw(st.lists(st.sampled_from(sorted(c for c in samples if c not in (1, 2, 3))), min_size=2, max_size=9, unique=True))
    attrs = b''
    for code in [1, 2, 3] + sorted(extra_codes):
        attrs += build.attribute(ATTR_FLAGS.get(code, 0xC0), code, draw(st.sampled_from(samples[code])))
    body = build.update_body(b'', attrs, hostile.BASE_NLRI)
    return {'type': 2, 'body': body.hex(), 'asn4': asn4, 'addpath': False, 'extnh': False, 'seed': 'tree:attribute-mix', 'ops': [f'attr{c}' for c in sorted(extra_codes)]}


@st.composite
def tree_messages(draw) -> dict:
    if draw(st.integers(0, 7)) == 0:
        return draw(attribute_mix())
    desc: list = []
    extra = b''
    what = draw(st.sampled_from(['prefix-sid', 'prefix-sid', 'tunnel', 'tunnel', 'bgpls', 'bgpls', 'flat', 'ls-nlri', 'route-nlri']))
    shape = 'announce'
    mp = None
    if what == 'prefix-sid':
        value = tlv.serialise(draw(level(tlv.PREFIX_SID, 0, desc)))
        extra = build.attribute(0xC0, 40, value) if value is not None else b''
    elif what == 'tunnel':
        value = tlv.serialise(draw(level(tlv.TUNNEL, 0, desc)))
        extra = build.attribute(0xC0, 23, value) if value is not None else b''
        shape = draw(st.sampled_from(['announce', 'sr-policy']))
    elif what == 'bgpls':
        value = tlv.serialise(draw(level(tlv.BGPLS_ATTR, 0, desc)))
        extra = build.attribute(0x80, 29, value) if value is not None else b''
        shape = draw(st.sampled_from(['announce', 'ls-nlri', 'ls-nlri']))
    elif what == 'flat':
        for _ in range(draw(st.sampled_from([1, 1, 2]))):
            f, c, v = draw(flat_attribute(desc))
            extra += build.attribute(f, c, v)
        shape = draw(st.sampled_from(['announce', 'announce', 'withdraw', 'mp-announce']))
    elif what == 'ls-nlri':
        field = tlv.serialise(draw(level(tlv.BGPLS_NLRI, 0, desc)))
        mp = struct.pack('!HBB', 16388, 71, 4) + build.ip('10.0.0.2') + b'\x00' + (field or b'')
        if draw(st.booleans()):
            value = tlv.serialise(draw(level(tlv.BGPLS_ATTR, 0, desc)))
            extra = build.attribute(0x80, 29, value) if value is not None else b''
    else:
        fam = draw(st.sampled_from([(25, 70), (1, 5), (2, 5)]))
        # EVPN and MVPN share the (type, length) framing; draw from the bank of that framing and let the decoder sort out which it takes
        field = tlv.serialise(draw(level(tlv.ROUTE_1_1, 0, desc)))
        mp = struct.pack('!HBB', fam[0], fam[1], 4) + build.ip('10.0.0.2') + b'\x00' + (field or b'')
        desc.append(f'family-{fam[0]}-{fam[1]}')
    if mp is not None:
        attrs = build.attribute(0x40, 1, b'\x00') + build.attribute(0x40, 2, b'') + build.attribute(0x40, 5, struct.pack('!L', 100)) + build.attribute(0x90, 14, mp)
        body = build.update_body(b'', attrs + extra, b'')
    elif shape == 'sr-policy':
        nlri = bytes([96]) + struct.pack('!LL', 1, 100) + build.ip('192.0.2.9')
        mpv = struct.pack('!HBB', 1, 73, 4) + build.ip('10.0.0.2') + b'\x00' + nlri
        attrs = build.attribute(0x40, 1, b'\x00') + build.attribute(0x40, 2, b'') + build.attribute(0x40, 5, struct.pack('!L', 100)) + build.attribute(0x90, 14, mpv)
        body = build.update_body(b'', attrs + extra, b'')
    else:
        body = hostile._update_shape(shape, extra)
    return {'type': 2, 'body': body.hex(), 'asn4': True, 'addpath': False, 'extnh': False, 'seed': f'tree:{what}', 'ops': desc or ['plain']}
