"""c15_iso.py - worker run inside vlib.forkiso for C15's history engine.

"the renderings of a decoded object are deterministic functions of its bytes" and "re-encoding what was decoded gives the
same bytes" have to hold whatever the process decoded before.  `run(job)` decodes the items of a job one after the other in
one process (a fork of a template that has imported exabgp, built its sessions and decoded nothing) and returns what it
observed of each: a job with one item is the reference for that item, a job with several is the history.
"""

from __future__ import annotations

_C = None


def setup() -> dict:
    global _C
    import props.c15 as c

    for name in ('plain', 'asn2', 'addpath'):
        c.session(name)
    _C = c
    return {}


def _field(fn) -> str:
    try:
        v = fn()
    except RecursionError:
        return 'exc:RecursionError'
    except Exception as exc:  # noqa: BLE001 - what the code under test raises is part of the observation
        return f'exc:{type(exc).__name__}'
    if isinstance(v, (bytes, bytearray, memoryview)):
        return bytes(v).hex()
    return v if isinstance(v, str) else repr(v)


def observe(item: dict) -> dict:
    c = _C
    if item['kind'] == 'attr':
        _conf, _nb, neg = c.session('plain' if item['asn4'] else 'asn2')
        code = item['code']
        flag = item['flags'] & ~0x10 & 0xFF
        try:
            a = c.attr_unpack(code, flag, bytes.fromhex(item['hex']), neg)
        except RecursionError:
            return {'outcome': 'refused:RecursionError'}
        except Exception as exc:  # noqa: BLE001
            return {'outcome': f'refused:{type(exc).__name__}'}
        if a is None:
            return {'outcome': 'refused:None'}
        coll = c.AttributeCollection()
        coll.add(a)
        return {
            'outcome': 'ok',
            'type': type(a).__name__,
            'pack': _field(lambda: a.pack_attribute(neg)),
            'json': _field(lambda: coll.json()),
            'text': _field(lambda: repr(coll)),
            'str': _field(lambda: str(a)),
        }
    fam = (item['afi'], item['safi'])
    neg = c.session('addpath' if item['addpath'] else 'plain')[2]
    action = c.Action.ANNOUNCE if item['action'] == 'announce' else c.Action.WITHDRAW
    got = c.try_unpack(fam, bytes.fromhex(item['hex']), action, item['addpath'], neg)
    if got is None:
        return {'outcome': 'refused'}
    o, left = got
    return {
        'outcome': 'ok',
        'type': type(o).__name__,
        'left': str(len(left)),
        'pack': _field(lambda: o.pack_nlri(neg)),
        'index': _field(lambda: o.index()),
        'json': _field(lambda: o.json()),
        'str': _field(lambda: str(o)),
        'extensive': _field(lambda: o.extensive() if hasattr(o, 'extensive') else ''),
    }


def run(job: dict):
    return [observe(item) for item in job['items']]
