"""c03_corpus.py - whole messages (type, body) taken from the qa vectors on disk; imports nothing from exabgp.

MESSAGES  list of {'type': int, 'hex': body hex, 'source': str}, deduplicated, in file order (deterministic)
"""

from __future__ import annotations

import glob
import os
import re

REPO = os.path.dirname(os.environ.get('VERIF_REPO_SRC', '/repo/src').rstrip('/'))
if not os.path.isdir(os.path.join(REPO, 'qa')):
    REPO = '/repo'  # a mutated scratch copy holds only src/: the vectors are read from the real tree
QA_ENCODING = os.path.join(REPO, 'qa', 'encoding')
QA_DECODING = os.path.join(REPO, 'qa', 'decoding')
MARKER = b'\xff' * 16

MESSAGES: list[dict] = []
_seen: set = set()


def _add(msg_type: int, body: bytes, source: str) -> None:
    key = (msg_type, body)
    if key in _seen:
        return
    _seen.add(key)
    MESSAGES.append({'type': msg_type, 'hex': body.hex(), 'source': source})


def _build() -> None:
    for path in sorted(glob.glob(os.path.join(QA_ENCODING, '*.ci'))):
        name = os.path.basename(path)[:-3]
        with open(path) as fh:
            for n, line in enumerate(fh.read().splitlines()):
                m = re.match(r'^\w+:raw:([0-9A-Fa-f:]+)$', line.strip())
                if not m:
                    continue
                raw = bytes.fromhex(m.group(1).replace(':', ''))
                if len(raw) < 19 or raw[:16] != MARKER:
                    continue
                _add(raw[18], raw[19:], f'qa-encoding:{name}:{n + 1}')
    for path in sorted(glob.glob(os.path.join(QA_DECODING, '*'))):
        name = os.path.basename(path)
        with open(path) as fh:
            lines = fh.read().splitlines()
        if len(lines) < 2:
            continue
        what = lines[0].split()
        try:
            raw = bytes.fromhex(re.sub(r'[\s:]', '', lines[1]))
        except ValueError:
            continue
        if raw.startswith(MARKER) and len(raw) >= 19:
            _add(raw[18], raw[19:], f'qa-decoding:{name}')
        elif what and what[0] == 'update':
            _add(2, raw, f'qa-decoding:{name}')
        elif what and what[0] == 'open':
            _add(1, raw, f'qa-decoding:{name}')
        elif what and what[0] == 'nlri' and len(what) >= 2 and what[1] == 'bgp-ls':
            # a bare BGP-LS NLRI: carried the way a peer would send it, in an MP_REACH_NLRI with an IPv4 next hop
            value = b'\x40\x04\x47\x04\x0a\x00\x00\x01\x00' + raw
            attrs = b'\x40\x01\x01\x00\x40\x02\x00\x40\x05\x04\x00\x00\x00\x64\x90\x0e' + len(value).to_bytes(2, 'big') + value
            _add(2, b'\x00\x00' + len(attrs).to_bytes(2, 'big') + attrs, f'qa-decoding:{name}')


_build()
UPDATES = [m for m in MESSAGES if m['type'] == 2]
OPENS = [m for m in MESSAGES if m['type'] == 1]
