"""forkiso.py - E6: "what does this do in a fresh process", answered by forking a pristine template.

Layout (three generations of processes):

    check process (client, `ForkServer`)
      `-- TEMPLATE: `python -m vlib.forkiso <worker module>` (one per client, long lived).  It imports the worker
          module, calls `worker.setup()` once (for C19: import exabgp, build the table of sessions) and from then on
          only forks; it never calls `worker.run` itself, so its interpreter state stays what a process that has just
          started (and brought its sessions up) looks like.
            `-- one GRANDCHILD per job (`os.fork()`, ~3 ms): calls `worker.run(job)`, writes the pickled result to a
                pipe and `_exit`s.  Whatever exabgp caches, interns or rewrites while doing so dies with it.

A job is whatever the worker understands (C19: decode one message / decode a whole sequence in one process).
The client sends a batch of jobs per round trip; the template runs them one after the other.

Wire format between client and template: 4-byte big-endian length + pickle, over the template's stdin / stdout
(dup'ed away first: a stray print from the code under test goes to stderr and can not corrupt the channel).

Robustness:
  * every grandchild is reaped (`waitpid`) before the next one is forked: no zombies accumulate;
  * a grandchild that does not answer within `job_timeout` is killed (`timeout`), one that dies without an answer is
    reported (`died`), an exception escaping `worker.run` comes back with its traceback (`error`): all three are
    raised in the client as `ForkIsoError` (a harness error - the worker is expected to catch what the code under test
    raises and make it part of its result);
  * the template exits when its stdin reaches EOF, and asks the kernel to be signalled if the client dies first
    (PR_SET_PDEATHSIG), the grandchildren likewise; the client closes the template at interpreter exit (`atexit`);
  * a template found dead between requests is restarted; a batch lost to the machine (template gone, fork killed or
    late) is run once more on a new template - the jobs are pure - and only a second failure is an error.
"""

from __future__ import annotations

import atexit
import gc
import importlib
import os
import pickle
import select
import signal
import struct
import subprocess
import sys
import time
import traceback
from typing import Any

HERE = os.path.dirname(os.path.dirname(os.path.abspath(__file__)))


class ForkIsoError(RuntimeError):
    """the isolation machinery failed (never: the code under test misbehaved)"""


class _Transient(ForkIsoError):
    """a failure that may be the machine's (lost template, killed or late fork): the batch is retried once"""


# ---------------------------------------------------------------------------- framing


def _write_frame(fd: int, obj: Any) -> None:
    data = pickle.dumps(obj, protocol=pickle.HIGHEST_PROTOCOL)
    data = struct.pack('!L', len(data)) + data
    view = memoryview(data)
    while view:
        n = os.write(fd, view)
        view = view[n:]


def _read_exact(fd: int, n: int, deadline: float | None) -> bytes | None:
    """n bytes, or None at EOF; TimeoutError when the deadline passes"""
    chunks = []
    while n:
        if deadline is not None:
            left = deadline - time.monotonic()
            if left <= 0:
                raise TimeoutError
            ready, _, _ = select.select([fd], [], [], left)
            if not ready:
                raise TimeoutError
        chunk = os.read(fd, min(n, 1 << 20))
        if not chunk:
            return None
        chunks.append(chunk)
        n -= len(chunk)
    return b''.join(chunks)


def _read_frame(fd: int, deadline: float | None) -> Any:
    head = _read_exact(fd, 4, deadline)
    if head is None:
        raise EOFError
    body = _read_exact(fd, struct.unpack('!L', head)[0], deadline)
    if body is None:
        raise EOFError
    return pickle.loads(body)


_LIBC: Any = None


def _load_libc() -> None:
    """in the template, once: the forks must not pay for importing ctypes"""
    global _LIBC
    try:
        import ctypes

        _LIBC = ctypes.CDLL(None, use_errno=True)
    except Exception:  # noqa: BLE001 - not on Linux: EOF on stdin still ends the template
        _LIBC = None


def _die_with_parent(sig: int) -> None:
    if _LIBC is not None:
        try:
            _LIBC.prctl(1, sig, 0, 0, 0)  # PR_SET_PDEATHSIG
        except Exception:  # noqa: BLE001
            pass


# ---------------------------------------------------------------------------- template side


def _spawn(worker: Any, job: Any, close_in_child: list[int]) -> tuple[int, int]:
    """fork one grandchild for one job -> (read end of its answer pipe, pid)"""
    r, w = os.pipe()
    pid = -1
    for attempt in range(6):
        try:
            pid = os.fork()
            break
        except OSError:  # EAGAIN / ENOMEM on a saturated machine: wait for the system (and our own reaper) to catch up
            if attempt == 5:
                os.close(r)
                os.close(w)
                raise
            time.sleep(0.05 * 2**attempt)
    if pid != 0:
        os.close(w)
        return r, pid
    # ---- grandchild: one job, one answer, gone
    code = 0
    try:
        os.close(r)
        for fd in close_in_child:
            try:
                os.close(fd)
            except OSError:
                pass
        _die_with_parent(signal.SIGKILL)
        gc.disable()
        try:
            answer = ('ok', worker.run(job))
        except BaseException:  # noqa: BLE001 - reported to the client, which raises
            answer = ('error', traceback.format_exc()[-6000:])
        try:
            data = pickle.dumps(answer, protocol=pickle.HIGHEST_PROTOCOL)
        except Exception:  # noqa: BLE001
            data = pickle.dumps(('error', 'unpicklable result: ' + traceback.format_exc()[-3000:]))
        view = memoryview(data)
        while view:
            n = os.write(w, view)
            view = view[n:]
        os.close(w)  # the answer is complete before the (slow) teardown of the address space starts
    except BaseException:  # noqa: BLE001
        code = 3
    finally:
        os._exit(code)
    raise AssertionError('unreachable')


class _Reaper:
    """children whose answer is in but which have not finished exiting: reaped without waiting, never more than `cap`"""

    def __init__(self, cap: int = 16) -> None:
        self.pids: list[int] = []
        self.cap = cap

    def add(self, pid: int) -> None:
        self.pids.append(pid)
        self.collect()

    def collect(self) -> None:
        left = []
        for pid in self.pids:
            try:
                done, _ = os.waitpid(pid, os.WNOHANG)
            except ChildProcessError:
                continue
            if done == 0:
                left.append(pid)
        while len(left) > self.cap:  # never more than `cap` unreaped: wait for the oldest
            try:
                os.waitpid(left.pop(0), 0)
            except ChildProcessError:
                pass
        self.pids = left

    def finish(self) -> None:
        for pid in self.pids:
            try:
                os.waitpid(pid, 0)
            except ChildProcessError:
                pass
        self.pids = []


def _run_batch(worker: Any, jobs: list, timeout: float, parallel: int, channel: tuple[int, ...], reaper: _Reaper) -> list:
    answers: list = [None] * len(jobs)
    live: dict[int, list] = {}  # read fd -> [job index, pid, chunks, deadline]
    nxt = 0

    def finish(fd: int, status: str) -> None:
        idx, pid, chunks, _ = live.pop(fd)
        os.close(fd)
        if status == 'timeout':
            try:
                os.kill(pid, signal.SIGKILL)
            except ProcessLookupError:
                pass
            os.waitpid(pid, 0)
            answers[idx] = ('timeout', f'no answer within {timeout}s, killed')
            return
        data = b''.join(chunks)
        if not data:
            _, wstatus = os.waitpid(pid, 0)
            answers[idx] = ('died', f'no answer, wait status {wstatus:#x}')
            return
        reaper.add(pid)
        try:
            answers[idx] = pickle.loads(data)
        except Exception:  # noqa: BLE001
            answers[idx] = ('died', f'truncated answer ({len(data)} bytes)')

    while nxt < len(jobs) or live:
        while nxt < len(jobs) and len(live) < parallel:
            fd, pid = _spawn(worker, jobs[nxt], list(channel) + list(live))
            live[fd] = [nxt, pid, [], time.monotonic() + timeout]
            nxt += 1
        wait = max(0.0, min(st[3] for st in live.values()) - time.monotonic())
        ready, _, _ = select.select(list(live), [], [], wait)
        for fd in ready:
            chunk = os.read(fd, 1 << 20)
            if chunk:
                live[fd][2].append(chunk)
            else:
                finish(fd, 'eof')
        now = time.monotonic()
        for fd in [fd for fd, st in live.items() if now >= st[3]]:
            finish(fd, 'timeout')
        reaper.collect()
    return answers


def _serve(worker_name: str) -> int:
    _load_libc()
    _die_with_parent(signal.SIGTERM)
    # the channel moves away from fd 0/1; fd 1 becomes stderr so that prints can not corrupt it
    rx = os.dup(0)
    tx = os.dup(1)
    devnull = os.open(os.devnull, os.O_RDONLY)
    os.dup2(devnull, 0)
    os.close(devnull)
    os.dup2(2, 1)
    try:
        worker = importlib.import_module(worker_name)
        info = worker.setup()
    except BaseException:  # noqa: BLE001
        _write_frame(tx, {'ready': False, 'error': traceback.format_exc()[-6000:]})
        return 2
    gc.collect()
    gc.freeze()  # what exists now is never collected in the forks: fewer pages copied
    _write_frame(tx, {'ready': True, 'pid': os.getpid(), 'info': info})
    forks = 0
    reaper = _Reaper()
    try:
        while True:
            try:
                request = _read_frame(rx, None)
            except EOFError:
                return 0
            if request.get('op') == 'stats':
                _write_frame(tx, {'forks': forks, 'pid': os.getpid(), 'unreaped': len(reaper.pids)})
                continue
            timeout = float(request.get('job_timeout', 20.0))
            parallel = max(1, int(request.get('parallel', 1)))
            try:
                answers = _run_batch(worker, request['jobs'], timeout, parallel, (rx, tx), reaper)
            except Exception:  # noqa: BLE001 - the machinery itself failed: say so, the client raises
                _write_frame(tx, {'failure': traceback.format_exc()[-6000:]})
                continue
            forks += len(answers)
            _write_frame(tx, {'answers': answers})
    finally:
        reaper.finish()


# ---------------------------------------------------------------------------- client side


class ForkServer:
    """client handle on one template process; `run(jobs)` -> list of results, in order"""

    def __init__(self, worker: str, job_timeout: float = 60.0, start_timeout: float = 120.0, parallel: int | None = None) -> None:
        self.worker = worker
        self.parallel = parallel if parallel is not None else int(os.environ.get('VERIF_FORKISO_PARALLEL', '4') or '4')
        self.job_timeout = job_timeout
        self.start_timeout = start_timeout
        self.proc: subprocess.Popen | None = None
        self.info: Any = None
        self.jobs_run = 0
        self.seconds = 0.0
        self.starts = 0
        self.retries = 0
        self._owner = os.getpid()
        atexit.register(self.close)

    # -- life cycle

    def start(self) -> None:
        if self.proc is not None and self.proc.poll() is None:
            return
        self._drop()
        self.proc = subprocess.Popen(
            [sys.executable, '-m', 'vlib.forkiso', self.worker],
            stdin=subprocess.PIPE,
            stdout=subprocess.PIPE,
            cwd=HERE,
            env=os.environ.copy(),
            close_fds=True,
            bufsize=0,
        )
        self.starts += 1
        try:
            hello = _read_frame(self.proc.stdout.fileno(), time.monotonic() + self.start_timeout)
        except (EOFError, TimeoutError) as exc:
            self._drop()
            raise ForkIsoError(f'template for {self.worker} did not come up ({type(exc).__name__})') from None
        if not hello.get('ready'):
            self._drop()
            raise ForkIsoError(f'template for {self.worker} failed in setup:\n{hello.get("error")}')
        self.info = hello.get('info')

    def _drop(self) -> None:
        proc, self.proc = self.proc, None
        if proc is None:
            return
        for stream in (proc.stdin, proc.stdout):
            try:
                if stream is not None:
                    stream.close()
            except OSError:
                pass
        try:
            proc.wait(timeout=2)  # EOF on its stdin ends it
        except subprocess.TimeoutExpired:
            proc.terminate()
            try:
                proc.wait(timeout=2)
            except subprocess.TimeoutExpired:
                proc.kill()
                proc.wait()

    def close(self) -> None:
        if os.getpid() != self._owner:
            return  # a fork of the client does not own the template
        self._drop()

    def __del__(self) -> None:  # pragma: no cover - best effort
        try:
            self.close()
        except Exception:  # noqa: BLE001
            pass

    # -- requests

    def _roundtrip(self, request: dict, timeout: float) -> dict:
        self.start()  # (re)starts a template found dead between requests
        assert self.proc is not None and self.proc.stdin is not None and self.proc.stdout is not None
        try:
            _write_frame(self.proc.stdin.fileno(), request)
            return _read_frame(self.proc.stdout.fileno(), time.monotonic() + timeout)
        except (EOFError, BrokenPipeError, TimeoutError, OSError) as exc:
            rc = self.proc.poll() if self.proc else None
            self._drop()
            raise _Transient(f'template for {self.worker} lost during a request ({type(exc).__name__}, exit status {rc})') from None

    def _attempt(self, jobs: list) -> list:
        reply = self._roundtrip({'jobs': jobs, 'job_timeout': self.job_timeout, 'parallel': self.parallel}, self.job_timeout * len(jobs) + 30.0)
        if 'failure' in reply:
            self._drop()
            raise ForkIsoError(f'template for {self.worker} failed while forking:\n{reply["failure"]}')
        out = []
        for job, (status, value) in zip(jobs, reply['answers']):
            if status == 'error':  # an exception escaped worker.run: deterministic, retrying is pointless
                raise ForkIsoError(f'worker raised for job {repr(job)[:300]}:\n{value}')
            if status != 'ok':
                self._drop()
                raise _Transient(f'fork for job {repr(job)[:300]}: {status}: {value}')
            out.append(value)
        return out

    def run(self, jobs: list) -> list:
        """results of the jobs, in order.  The jobs are pure (each runs in its own fork of the template), so a batch that
        was lost to the machine (template gone, a fork killed or out of time) is run once more on a new template"""
        if not jobs:
            return []
        started = time.monotonic()
        try:
            try:
                out = self._attempt(jobs)
            except _Transient as exc:
                self.retries += 1
                sys.stderr.write(f'forkiso: retrying a batch of {len(jobs)} jobs on a new template after: {exc}\n')
                try:
                    out = self._attempt(jobs)
                except _Transient as again:
                    raise ForkIsoError(f'twice in a row: {again}') from None
        finally:
            self.seconds += time.monotonic() - started
        self.jobs_run += len(jobs)
        return out

    def stats(self) -> dict:
        reply = self._roundtrip({'op': 'stats'}, 30.0)
        reply.update(jobs=self.jobs_run, seconds=round(self.seconds, 3), starts=self.starts, retries=self.retries)
        return reply


if __name__ == '__main__':
    sys.exit(_serve(sys.argv[1]))
