"""c18_findings - the diagnosed C18 findings with their minimal inputs.

* route_cases() / vpls_cases() / flow_cases(): the enumerated cases props/c18.py runs in every tier (one per root cause
  and symptom), so that the set of signatures does not depend on the seed;
* entries(): the same in the shape known_findings.json wants (status "known"), one entry per root cause with the fnmatch
  patterns of all its signatures.

    PYTHONPATH=/repo/src:/verif /venv/bin/python -m vlib.c18_findings            # prints the JSON entries
    PYTHONPATH=/repo/src:/verif /venv/bin/python -m vlib.c18_findings patterns   # prints the patterns, comma separated (VERIF_C18_KNOWN)
"""

from __future__ import annotations

import json
import sys

from vlib import c18_gen as gen

NH = ['next-hop', 'next-hop 10.0.0.1']


def _route(cl: list, fits, mutation: tuple | None, form: str = 'route', entry: str = 'parse_route_text', afi: int = 1, safi: int = 1, record: dict | None = None) -> dict:
    m = {'kind': mutation[0], 'field': mutation[1], 'what': mutation[2]} if mutation else None
    return gen.route_case(cl, form=form, entry=entry, afi=afi, safi=safi, fits=fits, mutation=m, record=record)


def _rec(form: str, afi: int, safi: int, prefix: str, nexthop: str, attrs: dict, **more) -> dict:
    rec = {'afi': afi, 'safi': safi, 'prefix': prefix, 'form': form, 'nexthop': nexthop, 'attrs': attrs}
    rec.update(more)
    rec['attr_order'] = [k for k in gen.ATTR_ORDER if k in attrs] + [k for k in ('watchdog', 'name') if k in rec]
    return rec


def _valid(rec: dict, entry: str) -> dict:
    return gen.route_case(gen.clauses(rec), form=rec['form'], entry=entry, afi=rec['afi'], safi=rec['safi'], fits=True, mutation=None, record=rec)


VPLS_BODY = [['endpoint', 'endpoint 5'], ['base', 'base 100'], ['offset', 'offset 1'], ['size', 'size 8']]


def _vpls(body: list, fits, mutation: tuple, entry: str = 'api') -> dict:
    return {'entry': entry, 'clauses': [['head', 'vpls']] + [list(c) for c in body], 'fits': fits, 'mutation': {'kind': mutation[0], 'field': mutation[1], 'what': mutation[2]}, 'record': None, 'near': True}


P4 = ['prefix', 'route 10.0.0.0/24']
F4 = ['prefix', 'ipv4 unicast 10.0.0.0/24']

# (id, what, [signature patterns], engine, case) - the first case of an id is the one registered
TABLE: list = []


def _add(fid: str, what: str, patterns: list, engine: str, cases: list, more: list | None = None) -> None:
    """cases run in `engine`; more = [(other engine, case)] for the same root cause seen through another engine"""
    TABLE.append((fid, what, patterns, engine, cases, more or []))


def _build() -> None:
    if TABLE:
        return
    over = 'over-bound'
    _add(
        'C18-community-half-unchecked',
        'static/parser.py _community compares each half of `a:b` with Community.MAX (2^32-1) instead of 65535: `community 65536:1` escapes as struct.error, `community 1:65536` is accepted and sent as 2:0',
        ['parse:*:community:pair-high:error', 'parse:*:community:pair-low:error', 'accepted-unfit:*:community:pair-low'],
        'route-text',
        [
            _route([P4, NH, ['community', 'community 65536:1']], False, (over, 'community', 'pair-high')),
            _route([P4, NH, ['community', 'community 1:65536']], False, (over, 'community', 'pair-low')),
            _route([P4, NH, ['community', 'community 65535:65536']], False, (over, 'community', 'pair-low')),
        ],
    )
    _add(
        'C18-large-community-part-unchecked',
        'static/parser.py _large_community compares each part with LargeCommunity.MAX (96 bits) instead of 2^32-1: `large-community 4294967296:1:1` escapes as struct.error',
        ['parse:*:large-community:part:error'],
        'route-text',
        [_route([P4, NH, ['large-community', 'large-community 4294967296:1:1']], False, (over, 'large-community', 'part'))],
    )
    _add(
        'C18-extended-community-hex-length',
        'static/parser.py _extended_community_hex does not check that the value is 8 octets: `0x0002` escapes as struct.error (IndexError for one octet), nine octets of a known type are accepted and cut to eight',
        ['parse:*:extended-community:hex-length:*', 'accepted-unfit:*:extended-community:hex-length'],
        'route-text',
        [
            _route([P4, NH, ['extended-community', 'extended-community 0x0002']], False, (over, 'extended-community', 'hex-length')),
            _route([P4, NH, ['extended-community', 'extended-community 0x000200010000000100']], False, (over, 'extended-community', 'hex-length')),
            _route([P4, NH, ['extended-community', 'extended-community 0x00']], False, (over, 'extended-community', 'hex-length')),
        ],
    )
    _add(
        'C18-malformed-address-oserror',
        'IP.pton lets the OSError of inet_pton through and next_hop / originator_id / aggregator / prefix do not catch it: `next-hop 1.2.3.999`, `originator-id 1.2.3.999`, `aggregator ( 1:1.2.3.999 )`, `route 300.0.0.0/8` escape as OSError (cluster_list does catch it)',
        ['parse:*:malformed-address:OSError', 'parse:*:prefix:malformed:OSError', 'parse:attributes:nlri:OSError@*', 'parse:vpls:next-hop:malformed:OSError', 'parse:flow:*:then-malformed:OSError'],
        'route-text',
        [
            _route([P4, ['next-hop', 'next-hop 1.2.3.999']], False, ('malformed', 'next-hop', 'malformed-address')),
            _route([P4, NH, ['originator-id', 'originator-id 1.2.3.999']], False, ('malformed', 'originator-id', 'malformed-address')),
            _route([P4, NH, ['aggregator', 'aggregator ( 65000:1.2.3.999 )']], False, ('malformed', 'aggregator', 'malformed-address')),
            _route([['prefix', 'route 300.0.0.0/8'], NH], False, ('malformed', 'prefix', 'malformed')),
            _route([['head', 'attributes'], NH, ['nlri', 'nlri 10.0.0.0/24 300.0.0.0/8']], False, ('malformed', 'prefix', 'malformed'), form='attributes', entry='api'),
            _route([F4, ['next-hop', 'next-hop 10.0.0.1'], ['aggregator', 'aggregator ( 65000:1.2.3.999 )']], False, ('malformed', 'aggregator', 'malformed-address'), form='family', entry='api'),
        ],
        [('vpls-text', _vpls([['rd', 'rd 1:1']] + VPLS_BODY + [['next-hop', 'next-hop 1.2.3.999']], False, ('malformed', 'next-hop', 'malformed')))],
    )
    _add(
        'C18-path-information-wraps',
        'PathInfo.make_from_integer keeps the low 32 bits: `path-information 4294967296` is accepted and sent as path id 0',
        ['accepted-unfit:*:path-information:int'],
        'route-text',
        [_route([P4, ['path-information', 'path-information 4294967296'], NH], False, (over, 'path-information', 'int'))],
    )
    _add(
        'C18-generic-attribute-code-flags-unchecked',
        'static/parser.py attribute accepts a code or flags above 0xff: `attribute [ 0x100 0xc0 0x00 ]` / `[ 0x63 0x1c0 0x00 ]` are accepted, packing raises ValueError(bytes must be in range(0, 256))',
        ['accepted-unfit:*:attribute:code', 'accepted-unfit:*:attribute:flags'],
        'route-text',
        [
            _route([P4, NH, ['attribute', 'attribute [ 0x100 0xc0 0x00 ]']], False, (over, 'attribute', 'code')),
            _route([P4, NH, ['attribute', 'attribute [ 0x63 0x1c0 0x00 ]']], False, (over, 'attribute', 'flags')),
        ],
    )
    _add(
        'C18-prefix-mask-not-a-number',
        'static/parser.py prefix treats any ValueError of `ip, mask = split("/")` / int(mask) as "no mask given": `route 10.0.0.0/x` is accepted as 10.0.0.0/32 (and `attributes .. nlri 2001:db8::/x` escapes as Notify)',
        ['accepted-unfit:*:prefix:malformed', 'parse:attributes:nlri:Notify@*'],
        'route-text',
        [
            _route([['prefix', 'route 10.0.0.0/x'], NH], False, ('malformed', 'prefix', 'malformed')),
            _route([['head', 'attributes'], ['next-hop', 'next-hop 2001:db8::1'], ['nlri', 'nlri 2001:db8::/x']], False, ('malformed', 'prefix', 'malformed'), form='attributes', entry='api', afi=2),
        ],
    )
    _add(
        'C18-rd-without-colon',
        'static/mpls.py route_distinguisher: without a colon `prefix` is never bound: `rd 12` (or `rd` with nothing behind) escapes as UnboundLocalError, for route, `<afi> mpls-vpn`, attributes and vpls',
        ['parse:*:rd:*:UnboundLocalError'],
        'route-text',
        [
            _route([P4, ['rd', 'rd 12'], ['label', 'label 3'], NH], False, ('malformed', 'rd', 'malformed'), safi=128),
            _route([['prefix', 'ipv4 mpls-vpn 10.0.0.0/24'], ['rd', 'rd 12'], ['label', 'label 3'], NH], False, ('malformed', 'rd', 'malformed'), form='family', entry='partial', safi=128),
        ],
        [
            ('vpls-text', _vpls([['rd', 'rd 12']] + VPLS_BODY + [NH], False, ('malformed', 'rd', 'malformed'))),
            ('vpls-text', _vpls([['rd', 'rd']] + VPLS_BODY + [NH], None, ('dropped-value', 'rd', 'dropped-value'))),
        ],
    )
    _add(
        'C18-announce-without-next-hop-label-rd',
        'a definition without next-hop (or an `<afi> nlri-mpls` one without label, `mpls-vpn` without rd) is accepted by parse_route_text, the configuration file, api_announce_v4/v6 and api_attributes; UpdateCollection.messages() then raises ValueError (only the `announce route` command validates)',
        ['accepted-unfit:*:next-hop:dropped-clause', 'accepted-unfit:*:label:dropped-clause', 'accepted-unfit:*:rd:dropped-clause'],
        'route-text',
        [
            _route([P4, ['med', 'med 5']], False, ('dropped-clause', 'next-hop', 'dropped-clause'), entry='config-flat'),
            _route([F4, ['med', 'med 5']], False, ('dropped-clause', 'next-hop', 'dropped-clause'), form='family', entry='api'),
            _route([['prefix', 'ipv4 nlri-mpls 10.0.0.0/24'], NH], False, ('dropped-clause', 'label', 'dropped-clause'), form='family', entry='api', safi=4),
            _route([['prefix', 'ipv4 mpls-vpn 10.0.0.0/24'], ['label', 'label 3'], NH], False, ('dropped-clause', 'rd', 'dropped-clause'), form='family', entry='api', safi=128),
            _route([['head', 'attributes'], ['med', 'med 5'], ['nlri', 'nlri 10.0.0.0/24']], False, ('dropped-clause', 'next-hop', 'dropped-clause'), form='attributes', entry='api'),
        ],
    )
    _add(
        'C18-attributes-only-next-hop-self',
        '`attributes next-hop self med 5` (no nlri) is accepted as an attributes-only route whose NextHopSelf is never resolved: packing raises ValueError(NextHopSelf.pack_attribute() called before resolve())',
        ['encode:attributes:nlri:ValueError@*nexthop.py:pack_attribute'],
        'route-text',
        [_route([['head', 'attributes'], ['next-hop', 'next-hop self'], ['med', 'med 5'], ['nlri', 'nlri']], None, ('dropped-prefix', 'nlri', 'dropped-prefix'), form='attributes', entry='api')],
    )
    # ---- the `<afi> <safi>` form
    base = {'form': 'family', 'afi': 1, 'safi': 1, 'prefix': '10.0.0.0/24', 'nexthop': '10.0.0.1'}
    broken = [
        ('originator-id', {'originator': '10.0.0.9'}, {}),
        ('cluster-list', {'cluster_list': ['10.0.0.9']}, {}),
        ('aigp', {'aigp': 5}, {}),
        ('atomic-aggregate', {'atomic': True}, {}),
        ('watchdog', {}, {'watchdog': 'dog'}),
        ('name', {}, {'name': 'n1'}),
        ('path-information', {}, {'path_id': 5, 'path_id_form': 'ip'}),
    ]
    _add(
        'C18-family-form-raw-values',
        'the schema validators of the `<afi> <safi>` form (announce/ip.py, path.py) return raw values (IP, int, str, bool) where an Attribute / PathInfo is needed: originator-id, cluster-list, aigp, atomic-aggregate (last clause), watchdog, name escape as AttributeError("... has no attribute ID"), path-information as AttributeError("pack_path")',
        ['parse:family:originator-id:*', 'parse:family:cluster-list:*', 'parse:family:aigp:*', 'parse:family:atomic-aggregate:*', 'parse:family:watchdog:*', 'parse:family:name:*', 'parse:family:path-information:*'],
        'route-text',
        [_valid(_rec(attrs=dict(a), **dict(base, **more)), 'api') for _, a, more in broken],
    )
    _add(
        'C18-family-form-atomic-aggregate-eats-next-token',
        'FlagValidator reads a token: `ipv4 unicast P next-hop N atomic-aggregate med 5` is refused ("med is not valid for a presence flag")',
        ['refused-valid:family:atomic-aggregate+next-clause'],
        'route-text',
        [_valid(dict(_rec(attrs={'atomic': True, 'med': 5}, **base), attr_order=['atomic', 'med']), 'partial')],
    )
    _add(
        'C18-family-form-generic-attribute-refused',
        '`attribute [ 0x99 0xc0 0x0102 ]` is refused in the `<afi> <safi>` form (HEX_STRING validator meets "["), and a bare hex string would raise AttributeError',
        ['refused-valid:family:attribute'],
        'route-text',
        [_valid(_rec(attrs={'generic': [0x99, 0xC0, '0102']}, **base), 'partial')],
    )
    _add(
        'C18-family-form-cluster-list-brackets-refused',
        '`cluster-list [ a b ]` is refused in the `<afi> <safi>` form (IPAddressValidator meets "[")',
        ['refused-valid:family:cluster-list'],
        'route-text',
        [_valid(_rec(attrs={'cluster_list': ['10.0.0.9', '10.0.0.8']}, **base), 'partial')],
    )
    _add(
        'C18-family-form-multicast-refused',
        '`ipv4 multicast` / `ipv6 multicast` use AnnounceIP.schema which has no settings_class: every definition is refused ("Schema must define settings_class and nlri_class")',
        ['refused-valid:family:prefix'],
        'route-text',
        [_valid(_rec(attrs={}, **dict(base, safi=2, prefix='224.0.0.0/24')), 'api')],
    )
    _add(
        'C18-family-form-prefix-of-other-afi',
        'the `<afi> <safi>` form does not compare the AFI of the prefix with the family: `ipv4 unicast 2001:db8::/32` is accepted as 32.1.13.184/32, `ipv6 unicast 10.0.0.0/24` as a00::/24',
        ['accepted-unfit:family:prefix:other-afi'],
        'route-text',
        [_route([['prefix', 'ipv4 unicast 2001:db8::/32'], NH], False, ('malformed', 'prefix', 'other-afi'), form='family', entry='api')],
    )
    # ---- the configuration file
    _add(
        'C18-config-block-errors-unlocated',
        'static { route P { .. } }: the prefix is parsed in pre() and the NLRI built in post(), outside Section.parse: a bad prefix or an NLRI longer than 255 bits ends in reload()\'s catch-all, "problem parsing configuration file line <lines read so far>", without the line or the statement (as does every exception above)',
        ['config:unlocated-error:route:*', 'config:unlocated-error:flow:*', 'config:unlocated-error:vpls:*'],
        'route-text',
        [
            _route([['prefix', 'route 10.0.0.0/33'], NH], False, (over, 'prefix', 'mask'), entry='config-block'),
            _route([['prefix', 'route 2001:db8::/128'], ['rd', 'rd 1:1'], ['label', 'label [ 1 2 3 ]'], ['next-hop', 'next-hop 2001:db8::1']], False, (over, 'label', 'nlri-length-over-255-bits'), entry='config-block', afi=2, safi=128),
        ],
    )
    wrong_line = _route([P4, NH, ['med', 'med 4294967296']], False, (over, 'med', 'value'), entry='config-flat')
    wrong_line['comments'] = 2
    _add(
        'C18-config-error-line-is-statement-count',
        'the "line N" of a configuration error is Parser.number, the count of statements read, not the file line: any comment, blank line or two statements on a line make it wrong',
        ['config:wrong-line-number'],
        'route-text',
        [wrong_line],
    )
    _add(
        'C18-config-ipv6-route-mask-breaks-neighbor',
        'the interned NetMask defect of C17 seen from C18: a valid IPv6 route whose mask equals the mask of the neighbor address (/32) makes the file be refused with "can only use ip ranges for the peer address with passive neighbors"',
        ['refused-valid:config:ipv6-mask-equal-to-neighbor-mask'],
        'route-text',
        [_valid(_rec('route', 2, 1, '2001:db8::/32', '2001:db8::1', {}), 'config-flat')],
    )
    # ---- vpls
    _add(
        'C18-vpls-without-next-hop',
        'a vpls definition without next-hop is accepted (VPLSSettings.validate does not ask for it); messages() raises ValueError(unexpected nlri definition)',
        ['accepted-unfit:vpls:next-hop:dropped-clause'],
        'vpls-text',
        [_vpls([['rd', 'rd 1:1']] + VPLS_BODY, False, ('dropped-clause', 'next-hop', 'dropped-clause'))],
    )
    # ---- flow
    def flow(match: list, then: list, fits, mutation: tuple, entry: str = 'api-block') -> dict:
        return {'entry': entry, 'match': match, 'then': then, 'fits': fits, 'mutation': {'kind': mutation[0], 'field': mutation[1], 'what': mutation[2]}, 'near': True}

    discard = [['discard', 'discard']]
    _add(
        'C18-flow-prefix-mask-unchecked',
        'flow/parser.py source / destination do not check the mask: `destination 10.0.0.0/33` is accepted and sent with mask 33, `2001:db8::/129` is accepted and raises Notify when packed (in a configuration file: unlocated error)',
        ['accepted-unfit:flow:*:mask-over', 'config:unlocated-error:flow:*:mask-over'],
        'flow-text',
        [
            flow([['destination', 'destination 10.0.0.0/33']], discard, False, ('prefix', 'destination', 'mask-over')),
            flow([['source', 'source 2001:db8::/129']], discard, False, ('prefix', 'source', 'mask-over')),
            flow([['destination', 'destination 2001:db8::/129']], discard, False, ('prefix', 'destination', 'mask-over'), entry='config'),
        ],
    )
    _add(
        'C18-flow-malformed-prefix-dropped',
        'flow/parser.py source / destination yield nothing for a text which is neither of their three shapes: `source 10.0.0/24` is accepted and the component silently left out (a broader rule is sent)',
        ['accepted-unfit:flow:*:malformed-address'],
        'flow-text',
        [
            flow([['destination', 'destination 10.0.0.0/24'], ['source', 'source 10.0.0/24']], discard, False, ('prefix', 'source', 'malformed-address')),
            flow([['protocol', 'protocol =6'], ['destination', 'destination 10.0.0/24']], discard, False, ('prefix', 'destination', 'malformed-address')),
        ],
    )
    _add(
        'C18-flow-ipv6-offset-unchecked',
        'an IPv6 flow prefix offset above the prefix length (or above 128) is accepted and sent: `destination 2001:db8::/32/33`, `/32/200`',
        ['accepted-unfit:flow:*:offset-over'],
        'flow-text',
        [
            flow([['destination', 'destination 2001:db8::/32/33']], discard, False, ('prefix', 'destination', 'offset-over')),
            flow([['source', 'source 2001:db8::/32/200']], discard, False, ('prefix', 'source', 'offset-over')),
        ],
    )
    _add(
        'C18-flow-rate-limit-packets-unbounded',
        '`rate-limit <n> packets` has no bound: a number above the float range escapes as struct.error("int too large to convert") / OverflowError',
        ['parse:flow:rate-limit:rate-limit-packets:*'],
        'flow-text',
        [flow([['destination', 'destination 10.0.0.0/24']], [['rate-limit', 'rate-limit 10000000000000000000000000000000000000000 packets']], False, ('then-over', 'rate-limit', 'rate-limit-packets'), entry='api-flat')],
    )
    _add(
        'C18-flow-malformed-address-oserror',
        'flow: `redirect 1.2.3.999`, `copy 1.2.3`, `redirect-to-nexthop-ietf 1.2.3.999`, `destination 2001:db8::zz/32` escape as OSError (IP.pton, see C18-malformed-address-oserror)',
        ['parse:flow:*:then-malformed:OSError', 'parse:flow:*:malformed-address:OSError'],
        'flow-text',
        [
            flow([['destination', 'destination 10.0.0.0/24']], [['redirect', 'redirect 1.2.3.999']], None, ('then-malformed', 'redirect', 'then-malformed')),
            flow([['destination', 'destination 10.0.0.0/24']], [['copy', 'copy 1.2.3']], None, ('then-malformed', 'copy', 'then-malformed')),
            flow([['destination', 'destination 10.0.0.0/24']], [['redirect-to-nexthop-ietf', 'redirect-to-nexthop-ietf 1.2.3.999']], None, ('then-malformed', 'redirect-to-nexthop-ietf', 'then-malformed')),
            flow([['destination', 'destination 2001:db8::zz/32']], discard, False, ('prefix', 'destination', 'malformed-address')),
            flow([['source', 'source 2001:db8::zz/32']], discard, False, ('prefix', 'source', 'malformed-address')),
        ],
    )


def _cases(engine: str) -> list:
    _build()
    out = [c for _, _, _, e, cases, _ in TABLE if e == engine for c in cases]
    return out + [c for _, _, _, _, _, more in TABLE for e, c in more if e == engine]


def route_cases() -> list:
    return _cases('route-text')


def vpls_cases() -> list:
    return _cases('vpls-text')


def flow_cases() -> list:
    return _cases('flow-text')


def patterns() -> list:
    _build()
    return [p for _, _, pats, _, _, _ in TABLE for p in pats]


def entries() -> list:
    _build()
    return [{'id': fid, 'property': 'C18', 'status': 'known', 'engine': engine, 'signature': pats[0], 'signatures': pats, 'what': what, 'case': cases[0]} for fid, what, pats, engine, cases, _ in TABLE]


if __name__ == '__main__':
    if sys.argv[1:] == ['patterns']:
        print(','.join(patterns()))
    else:
        print(json.dumps(entries(), indent=1))
