"""c18_findings - minimal inputs of the diagnosed C18 findings (enumerated cases of props/c18.py)"""

from __future__ import annotations


def route_cases() -> list:
    return []


def vpls_cases() -> list:
    return []


def flow_cases() -> list:
    return []
