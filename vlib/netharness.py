"""netharness.py - the real Reactor / Peer / Protocol / Connection / Processes under a virtual clock (engine E4).

What is substituted from outside (and nothing else):
  * the event loop (vloop.VirtualLoop) and the `time` functions every exabgp module reads;
  * `exabgp.reactor.protocol.Outgoing` -> a Connection subclass that gets one end of a socketpair from the harness
    (or fails, when the schedule says the connect fails); Protocol.connect itself is the real code;
  * incoming connections are real `Incoming` objects built on the other kind of pair (TCP_NODELAY skipped) and passed to
    `Reactor.handle_connection`, as Listener.new_connections does;
  * `subprocess.Popen` as seen by exabgp.reactor.api.processes -> a pipe-backed fake, so the real Processes code forks
    nothing but reads commands / writes events through real pipes;
  * Daemon.__init__ chdir/umask.
Recorders wrap FSM.change, Connection.writer_async and read the fake process pipes.
"""

from __future__ import annotations

import asyncio
import contextlib
import os
import socket
import struct
import tempfile

from vlib import exa, vloop  # noqa: F401
from vlib.refwire import codec


class FakePopen:
    """stands for the API helper process: exabgp reads self.stdout (commands) and writes self.stdin (events)"""

    instances: list['FakePopen'] = []

    def __init__(self, run, stdin=None, stdout=None, env=None, preexec_fn=None, **kw) -> None:
        self.run = run
        cmd_r, cmd_w = os.pipe()
        evt_r, evt_w = os.pipe()
        self.stdout = os.fdopen(cmd_r, 'rb', 0)  # exabgp reads commands here
        self.stdin = os.fdopen(evt_w, 'wb', 0)  # exabgp writes events here
        self.harness_cmd = os.fdopen(cmd_w, 'wb', 0)
        self.harness_evt = os.fdopen(evt_r, 'rb', 0)
        os.set_blocking(evt_r, False)
        self.pid = 4242
        self.returncode = None
        self.terminated = False
        FakePopen.instances.append(self)

    def poll(self):
        return self.returncode

    def wait(self, timeout=None):
        return 0

    def terminate(self):
        self.terminated = True
        self.returncode = 0

    kill = terminate

    def close(self):
        for f in (self.stdout, self.stdin, self.harness_cmd, self.harness_evt):
            try:
                f.close()
            except OSError:
                pass


class _AddressedSocket(socket.socket):
    """one end of a socketpair which answers getpeername / getsockname like a TCP socket accepted from a given address"""

    _addresses: tuple = (('127.0.0.2', 40000), ('127.0.0.1', 179))

    def getpeername(self):  # type: ignore[override]
        return self._addresses[0]

    def getsockname(self):  # type: ignore[override]
        return self._addresses[1]

    def setsockopt(self, *args):  # type: ignore[override]
        try:
            return socket.socket.setsockopt(self, *args)
        except OSError:
            return None  # TCP options on a unix socketpair


class _FakeListeningSocket:
    """what Listener keeps in _sockets: accept() hands out the queued connections"""

    family = socket.AF_INET

    def __init__(self) -> None:
        self.queue: list = []

    def accept(self):
        if not self.queue:
            raise BlockingIOError(11, 'nothing to accept')
        io = self.queue.pop(0)
        return io, io.getpeername()

    def close(self) -> None:
        self.queue = []


class Remote:
    """one transport as seen by the remote speaker"""

    def __init__(self, harness: 'Harness', sock: socket.socket, kind: str, key: str) -> None:
        self.h = harness
        self.sock = sock
        self.kind = kind  # 'outgoing' (exabgp connected to us) or 'incoming' (we connected to exabgp)
        self.key = key
        self.buffer = b''
        self.consumed = 0
        self.chunks: list[tuple[float, bytes]] = []
        self.closed_at: float | None = None  # when the remote saw exabgp's end close (EOF / reset)
        self.close_kind: str | None = None
        self.local_closed_at: float | None = None  # when the remote closed its own end
        self.messages: list[tuple[float, int, bytes]] = []  # (vtime of last byte, type, body)
        self.bad_framing = False
        self.msg_size = 65535
        self.paused = False  # a remote that stops reading: exabgp's send buffer fills up
        self._task = harness.loop.create_task(self._reader())
        self.sent: list[tuple[float, bytes]] = []

    async def _reader(self) -> None:
        loop = self.h.loop
        while True:
            while self.paused:
                await asyncio.sleep(0.05)
            try:
                data = await loop.sock_recv(self.sock, 1 << 16)
            except (ConnectionResetError, BrokenPipeError):
                self.closed_at = loop.time()
                self.close_kind = 'reset'
                return
            except (OSError, asyncio.CancelledError):
                return
            if not data:
                self.closed_at = loop.time()
                self.close_kind = 'eof'
                return
            self.h.loop.note_activity()
            self.chunks.append((loop.time(), data))
            self.buffer += data
            self._frame()

    def _frame(self) -> None:
        while not self.bad_framing and len(self.buffer) - self.consumed >= 19:
            head = self.buffer[self.consumed : self.consumed + 19]
            length, mtype = struct.unpack('!HB', head[16:19])
            if head[:16] != codec.MARKER or length < 19:
                self.bad_framing = True
                return
            if len(self.buffer) - self.consumed < length:
                return
            body = self.buffer[self.consumed + 19 : self.consumed + length]
            self.consumed += length
            self.messages.append((self.h.loop.time(), mtype, body))

    async def send(self, data: bytes) -> bool:
        try:
            await self.h.loop.sock_sendall(self.sock, data)
            self.sent.append((self.h.loop.time(), data))
            return True
        except OSError:
            return False

    async def send_msg(self, mtype: int, body: bytes = b'') -> bool:
        return await self.send(codec.frame(mtype, body))

    def close(self, reset: bool = False) -> None:
        if self.local_closed_at is None:
            self.local_closed_at = self.h.loop.time()
        if reset:
            try:
                self.sock.setsockopt(socket.SOL_SOCKET, socket.SO_LINGER, struct.pack('ii', 1, 0))
            except OSError:
                pass
        self._task.cancel()
        try:
            self.sock.close()
        except OSError:
            pass

    def half_close(self) -> None:
        try:
            self.sock.shutdown(socket.SHUT_WR)
        except OSError:
            pass

    async def wait_for(self, predicate, timeout: float = 30.0, step: float = 0.01) -> bool:
        """virtual-time bounded wait"""
        end = self.h.loop.time() + timeout
        while self.h.loop.time() < end:
            if predicate():
                return True
            await asyncio.sleep(step)
        return predicate()

    async def wait_message(self, mtype: int, count: int = 1, timeout: float = 30.0) -> bool:
        return await self.wait_for(lambda: sum(1 for m in self.messages if m[1] == mtype) >= count or self.closed_at is not None, timeout) and sum(
            1 for m in self.messages if m[1] == mtype
        ) >= count

    def of_type(self, mtype: int) -> list[tuple[float, int, bytes]]:
        return [m for m in self.messages if m[1] == mtype]


class Harness:
    def __init__(self, loop: vloop.VirtualLoop, config_text: str | None = None, config_files: list[str] | None = None, env: dict | None = None) -> None:
        self.loop = loop
        self.config_text = config_text
        self.config_files = config_files
        self.small_buffers = False
        self.env = env or {}
        self.fsm_log: list[tuple[float, str, str, str]] = []
        self.wire_log: list[dict] = []
        # a write that blocks (the remote's TCP window is closed): set write_stall = seconds and the next UPDATE written by
        # exabgp waits that long (virtual time) inside Connection.writer_async before going out; recorded in self.stalls
        self.write_stall: float | None = None
        self.stalls: list[tuple[float, float]] = []
        self.remotes: list[Remote] = []
        self.connect_policy = lambda harness, proto: True  # return False to fail the outgoing connect
        self.on_outgoing = None  # callback(remote) when exabgp connected out
        self.api_lines: list[tuple[float, str]] = []
        self._api_buf = b''
        self._patches: list = []
        self.reactor = None
        self.main_task = None
        self.tmpdir = None

    # ------------------------------------------------------------------ set-up / tear-down

    def __enter__(self) -> 'Harness':
        from exabgp.bgp.fsm import FSM
        from exabgp.environment import getenv
        from exabgp.reactor import daemon as daemon_mod
        from exabgp.reactor import protocol as protocol_mod
        from exabgp.reactor.api import processes as processes_mod
        from exabgp.reactor.network.connection import Connection

        harness = self
        FakePopen.instances = []

        # environment knobs (restored on exit)
        env = getenv()
        self._saved_env = []
        for path, value in self.env.items():
            section, name = path.split('.')
            sec = getattr(env, section)
            self._saved_env.append((sec, name, getattr(sec, name)))
            setattr(sec, name, value)

        def daemon_init(self_, reactor) -> None:
            self_.pid = ''
            self_.user = 'nobody'
            self_.daemonize = False
            self_.umask = 0o137
            self_._saved_pid = False
            self_.reactor = reactor

        self._patch(daemon_mod.Daemon, '__init__', daemon_init)

        class HarnessOutgoing(Connection):
            direction = 'outgoing'

            def __init__(self_, afi, peer, local, port=179, *args, **kw) -> None:
                Connection.__init__(self_, afi, peer, local)
                self_.port = port

            async def establish_async(self_) -> bool:
                proto = harness._connecting_proto
                ok = harness.connect_policy(harness, proto)
                if not ok:
                    return False
                a, b = socket.socketpair()
                a.setblocking(False)
                b.setblocking(False)
                if harness.small_buffers:
                    # a transport whose send buffer fills after a few kilobytes (a slow or stuck peer is then a remote that pauses)
                    a.setsockopt(socket.SOL_SOCKET, socket.SO_SNDBUF, 4096)
                    b.setsockopt(socket.SOL_SOCKET, socket.SO_RCVBUF, 4096)
                self_.io = a
                self_.success()
                if not self_.local:
                    self_.local = '127.0.0.1' if ':' not in self_.peer else '::1'
                remote = Remote(harness, b, 'outgoing', harness._peer_key(proto.peer))
                remote.connection = self_
                harness.remotes.append(remote)
                if harness.on_outgoing:
                    harness.on_outgoing(remote)
                return True

            def establish(self_):
                raise RuntimeError('generator establish is not used in async mode')

        self._patch(protocol_mod, 'Outgoing', HarnessOutgoing)

        real_connect = protocol_mod.Protocol.connect

        async def connect(self_):
            harness._connecting_proto = self_
            return await real_connect(self_)

        self._patch(protocol_mod.Protocol, 'connect', connect)

        self._patch(processes_mod.subprocess, 'Popen', FakePopen)
        self._patch(processes_mod, 'preexec_helper', lambda: None)

        real_change = FSM.change

        def change(self_, state):
            before = self_.state.name
            proto = getattr(self_.peer, 'proto', None)
            conn = id(proto.connection) if proto is not None and proto.connection is not None else None
            r = real_change(self_, state)
            harness.fsm_log.append((harness.loop.time(), harness._peer_key(self_.peer), before, self_.state.name, conn))
            harness.loop.note_activity()
            return r

        self._patch(FSM, 'change', change)

        real_writer = Connection.writer_async

        async def writer_async(self_, data):
            peer = harness._peer_of(self_)
            harness.wire_log.append(
                {'t': harness.loop.time(), 'conn': id(self_), 'direction': self_.direction, 'fsm': peer.fsm.name() if peer else None, 'peer': harness._peer_key(peer) if peer else None, 'data': bytes(data)}
            )
            harness.loop.note_activity()
            if harness.write_stall and bytes(data[18:19]) == b'\x02':
                delay, harness.write_stall = harness.write_stall, None
                harness.stalls.append((harness.loop.time(), delay))
                await asyncio.sleep(delay)
            return await real_writer(self_, data)

        self._patch(Connection, 'writer_async', writer_async)

        self._build()
        return self

    def _patch(self, obj, name, value) -> None:
        self._patches.append((obj, name, getattr(obj, name)))
        setattr(obj, name, value)

    def _build(self) -> None:
        from exabgp.configuration.configuration import Configuration
        from exabgp.reactor.api.processes import Processes
        from exabgp.reactor.loop import Reactor

        if self.config_files is not None:
            configuration = Configuration(list(self.config_files))
        else:
            configuration = Configuration([self.config_text], text=True)
        reactor = Reactor(configuration)
        reactor.processes = Processes()
        reactor.asynchronous.set_error_handler(reactor.processes.answer_error_sync)
        reactor.signal.mark_ready()
        self.reactor = reactor
        self.reload_ok = reactor.reload()
        if self.reload_ok:
            reactor.processes.start(configuration.processes)
            reactor.processes.setup_async_readers(self.loop)

    def start(self) -> None:
        self.main_task = self.loop.create_task(self.reactor._async_main_loop())
        self.loop.is_spinner = self._is_spinner

    def _is_spinner(self, task) -> bool:
        """tasks known to busy-wait on sleep(0): the reactor main loop, and a peer waiting for an incoming connection"""
        if task is self.main_task:
            return True
        for peer in self.reactor._peers.values():
            if peer._async_task is task:
                return peer.proto is None and peer.fsm.name() == 'ACTIVE'
        return False

    def __exit__(self, *exc) -> None:
        try:
            if self.main_task and not self.main_task.done():
                self.main_task.cancel()
            for peer in list(self.reactor._peers.values()) if self.reactor else []:
                try:
                    peer.stop_async_task()
                    if peer.proto:
                        peer.proto.close('harness teardown')
                except Exception:  # noqa: BLE001
                    pass
            for r in self.remotes:
                r.close()
            for p in FakePopen.instances:
                try:
                    self.loop.remove_reader(p.stdout.fileno())
                except Exception:  # noqa: BLE001
                    pass
                p.close()
        finally:
            for obj, name, value in reversed(self._patches):
                setattr(obj, name, value)
            self._patches = []
            for sec, name, value in self._saved_env:
                setattr(sec, name, value)
            try:
                from exabgp.rib import RIB

                RIB._cache.clear()
            except Exception:  # noqa: BLE001
                pass

    # ------------------------------------------------------------------ lookups

    def _peer_key(self, peer) -> str:
        if peer is None or not self.reactor:
            return '?'
        for key, p in self.reactor._peers.items():
            if p is peer:
                return key
        return str(peer.neighbor.session.peer_address)

    def _peer_of(self, connection):
        if not self.reactor:
            return None
        for p in self.reactor._peers.values():
            if p.proto is not None and p.proto.connection is connection:
                return p
        return None

    def peer(self, index: int = 0):
        return list(self.reactor._peers.values())[index]

    def peer_key(self, index: int = 0) -> str:
        return list(self.reactor._peers.keys())[index]

    # ------------------------------------------------------------------ actions of the outside world

    def incoming(self, index: int = 0) -> Remote:
        """a TCP connection from the remote speaker to exabgp for configured neighbor #index"""
        from exabgp.protocol.family import AFI
        from exabgp.reactor.network.connection import Connection
        from exabgp.reactor.network.incoming import Incoming

        key = self.peer_key(index)
        neighbor = self.reactor._peers[key].neighbor
        a, b = socket.socketpair()
        a.setblocking(False)
        b.setblocking(False)
        conn = Incoming.__new__(Incoming)
        afi = neighbor.session.peer_address.afi if neighbor.session.peer_address is not None else AFI.ipv4
        Connection.__init__(conn, afi, str(neighbor.session.peer_address), str(neighbor.session.local_address))
        conn.io = a
        conn.success()
        remote = Remote(self, b, 'incoming', key)
        remote.connection = conn
        self.remotes.append(remote)
        denied = self.reactor.handle_connection(key, conn)
        remote.denied = denied is not None
        if denied is not None:
            # the refusal NOTIFICATION is written by a generator the reactor schedules
            import uuid

            self.reactor.asynchronous.schedule(str(uuid.uuid1()), 'refusing connection', denied)
        self.loop.note_activity()
        return remote

    def listen(self) -> None:
        """give the real Listener a listening socket of ours: connections queued with connect_from() are accepted by
        Listener.incoming() and matched against the neighbors (single addresses and ranges) by Listener.new_connections(),
        exactly as the reactor loop drives them"""
        if getattr(self, '_fake_listener', None) is None:
            self._fake_listener = _FakeListeningSocket()
            listener = self.reactor.listener
            listener.serving = True
            listener._sockets[self._fake_listener] = ('127.0.0.1', 179, '0.0.0.0', None)

    def connect_from(self, remote_ip: str, our_ip: str = '127.0.0.1') -> 'Remote':
        """a TCP connection from remote_ip reaches the listening socket (see listen())"""
        self.listen()
        a, b = socket.socketpair()
        b.setblocking(False)
        io = _AddressedSocket(family=a.family, type=a.type, proto=a.proto, fileno=a.detach())
        io._addresses = ((remote_ip, 40000 + len(self.remotes)), (our_ip, 179))
        io.setblocking(False)
        remote = Remote(self, b, 'incoming', f'listener:{remote_ip}')
        self.remotes.append(remote)
        self._fake_listener.queue.append(io)
        self.loop.note_activity()
        return remote

    def api_write(self, data: bytes, process_index: int = 0) -> None:
        FakePopen.instances[process_index].harness_cmd.write(data)
        self.loop.note_activity()

    def api_read(self, process_index: int = 0) -> list[str]:
        """drain what exabgp wrote to the helper; returns the new complete lines"""
        if not FakePopen.instances:
            return []
        f = FakePopen.instances[process_index].harness_evt
        out = []
        while True:
            try:
                data = f.read(1 << 16)
            except (BlockingIOError, OSError):
                break
            if not data:
                break
            self._api_buf += data
        while b'\n' in self._api_buf:
            line, self._api_buf = self._api_buf.split(b'\n', 1)
            text = line.decode('utf-8', 'replace')
            self.api_lines.append((self.loop.time(), text))
            out.append(text)
        return out

    def signal_reload(self) -> None:
        from exabgp.reactor.interrupt import Signal

        self.reactor.signal.received = Signal.RELOAD
        self.loop.note_activity()

    async def sleep(self, seconds: float) -> None:
        await asyncio.sleep(seconds)

    async def settle(self, seconds: float = 0.5) -> None:
        await asyncio.sleep(seconds)
        self.api_read()


# ---------------------------------------------------------------------------- standard peer behaviour


def open_from(remote_as: int, hold: int, router_id: int, caps: list[bytes]) -> bytes:
    from vlib.refwire import build

    asn2 = remote_as if remote_as <= 65535 else 23456
    return build.open_with_caps(asn2, hold, router_id, caps)


async def establish(remote: Remote, open_body: bytes, timeout: float = 20.0) -> bool:
    """the remote side of a normal establishment: wait for exabgp's OPEN, answer OPEN + KEEPALIVE, wait for KEEPALIVE"""
    if not await remote.wait_message(codec.OPEN, 1, timeout):
        return False
    await remote.send_msg(codec.OPEN, open_body)
    if not await remote.wait_message(codec.KEEPALIVE, 1, timeout):
        return False
    await remote.send_msg(codec.KEEPALIVE)
    return True


def process_section(name: str = 'helper', encoder: str = 'json') -> str:
    return f'process {name} {{\n  run /bin/true;\n  encoder {encoder};\n}}\n'


_API_COUNTER = [0]


def api_section(name: str = 'helper', receive: list[str] | None = None, send: list[str] | None = None, changes: bool = True) -> str:
    # unnamed api sections are named after time.time(), which stands still while a configuration is parsed here
    _API_COUNTER[0] += 1
    out = [f'  api section{_API_COUNTER[0]} {{', f'    processes [ {name} ];']
    if changes:
        out.append('    neighbor-changes;')
    if receive:
        out.append('    receive {')
        out += [f'      {r};' for r in receive]
        out.append('    }')
    if send:
        out.append('    send {')
        out += [f'      {r};' for r in send]
        out.append('    }')
    out.append('  }')
    return '\n'.join(out)


@contextlib.contextmanager
def temp_config_dir():
    d = tempfile.mkdtemp(prefix='verif-conf-', dir=os.environ.get('VERIF_TMP', None))
    try:
        yield d
    finally:
        import shutil

        shutil.rmtree(d, ignore_errors=True)
