"""c13_findings - the genuine C13 findings with a minimal input each, in the shape known_findings.json wants

    PYTHONPATH=/repo/src:/verif /venv/bin/python -m vlib.c13_findings          # prints the JSON entries (status "known")
    PYTHONPATH=/repo/src:/verif /venv/bin/python -m vlib.c13_findings --check  # runs every witness, prints the signature it gives

props/c13.py runs the witnesses as enumerated cases of their engine in every tier, so a listed root cause is met on
every run whatever the seed (the generated search is what looks for the ones not listed yet).
Nothing here imports exabgp (the --check mode does, through props.c13).
"""

from __future__ import annotations

import json
import struct
import sys

from vlib import c13_hostile as hostile
from vlib.refwire import build


def _tlv12(code: int, value: bytes) -> bytes:
    return bytes([code]) + struct.pack('!H', len(value)) + value


def _sub(code: int, value: bytes) -> bytes:
    return bytes([code]) + (bytes([len(value)]) if code < 128 else struct.pack('!H', len(value))) + value


def _tunnel(ttype: int, value: bytes) -> bytes:
    return struct.pack('!HH', ttype, len(value)) + value


def _update(extra: bytes) -> dict:
    body = hostile._update_shape('announce', extra)
    return {'type': 2, 'body': body.hex(), 'asn4': True, 'addpath': False, 'extnh': False, 'seed': 'witness', 'ops': ['witness']}


SID = b'\x00' + build.ip('2001:db8:0:1::') + b'\x00' + struct.pack('!H', 0x13) + b'\x00'
STRUCTURE = _tlv12(1, bytes([40, 24, 16, 0, 16, 64]))
PREFERENCE = _sub(12, b'\x00\x00' + struct.pack('!L', 100))
BSID = _sub(13, b'\x00\x00' + struct.pack('!L', 16000 << 12))
SRV6_BSID = _sub(20, b'\x00\x00' + build.ip('2001:db8::1'))
PRIORITY = _sub(15, b'\x01\x00')


def prefix_sid(tlvs: bytes) -> dict:
    return _update(build.attribute(0xC0, 40, tlvs))


def tunnel_encap(tlvs: bytes) -> dict:
    return _update(build.attribute(0xC0, 23, tlvs))


def ext_community(item: bytes) -> dict:
    return _update(build.attribute(0xC0, 16, item))


def bgpls(tlvs: bytes) -> dict:
    return _update(build.attribute(0x80, 29, tlvs))


def witnesses() -> list:
    """[(id, engine, signature patterns, what, case)]"""
    e = 'c3a9'  # é
    w = [
        (
            'C13-text-non-ascii-open',
            'hostile-strings',
            ['text:open:write-UnicodeEncodeError', 'text4:open:write-UnicodeEncodeError'],
            'text encoder: oneline() keeps printable non-ASCII (hostname / software version capability), Processes.write encodes ASCII-strict: UnicodeEncodeError out of the API writer, the OPEN event is never written',
            {'kind': 'open', 'slots': [{'label': 'hostname', 'hex': e}, {'label': 'domainname', 'hex': ''}], 'grouping': 'each', 'asn4': True, 'operational': False, 'gr': False},
        ),
        (
            'C13-text-non-ascii-operational',
            'hostile-strings',
            ['text:operational:write-UnicodeEncodeError', 'text4:operational:write-UnicodeEncodeError'],
            'text encoder: an OPERATIONAL ADM/ASM advisory with a non-ASCII character (or invalid UTF-8, shown as U+FFFD) makes Processes.write raise UnicodeEncodeError',
            {'kind': 'operational', 'what': 1, 'afi': 1, 'safi': 1, 'slots': [{'label': 'operational-advisory', 'hex': e}]},
        ),
        (
            'C13-text-non-ascii-update',
            'hostile-strings',
            ['text:update:write-UnicodeEncodeError', 'text4:update:write-UnicodeEncodeError'],
            'text encoder: a BGP-LS node / link name or an SR policy / candidate path name with a non-ASCII character makes Processes.write raise UnicodeEncodeError for the UPDATE event',
            {'kind': 'bgpls', 'slots': [{'label': 'bgpls-node-name', 'hex': e, 'tlv': 1026}], 'fixed': False, 'shape': 'announce'},
        ),
        (
            'C13-srv6-sub-sub-tlv-unparseable',
            'corpus-render',
            ['json:update:unparseable:attribute.bgp-prefix-sid.l?-service'],
            'Srv6SidInformation.json() splices the json() of an unregistered Service Data Sub-Sub-TLV, which is an object `{"type": 7, "raw": ..}` and not a member, into its own object: the UPDATE line does not parse',
            prefix_sid(_tlv12(5, b'\x00' + _tlv12(1, SID + _tlv12(7, b'\xab')))),
        ),
        (
            'C13-srv6-sid-structure-repeated',
            'corpus-render',
            ['json:update:duplicate-key:attribute.bgp-prefix-sid.l?-service.structure'],
            'two SID Structure Sub-Sub-TLVs in one SRv6 SID Information Sub-TLV: the key "structure" twice in one object',
            prefix_sid(_tlv12(5, b'\x00' + _tlv12(1, SID + STRUCTURE + STRUCTURE))),
        ),
        (
            'C13-prefix-sid-service-repeated',
            'corpus-render',
            ['json:update:duplicate-key:attribute.bgp-prefix-sid.l?-service'],
            'two SRv6 L3 (or L2) Service TLVs in one Prefix-SID attribute: the key "l3-service" ("l2-service") twice in "bgp-prefix-sid"',
            prefix_sid(_tlv12(5, b'\x00' + _tlv12(1, SID)) * 2),
        ),
        (
            'C13-prefix-sid-label-index-repeated',
            'corpus-render',
            ['json:update:duplicate-key:attribute.bgp-prefix-sid.sr-label-index'],
            'two Label-Index TLVs in one Prefix-SID attribute: the key "sr-label-index" twice',
            prefix_sid(_tlv12(1, b'\x00\x00\x00' + struct.pack('!L', 7)) * 2),
        ),
        (
            'C13-prefix-sid-srgb-repeated',
            'corpus-render',
            ['json:update:duplicate-key:attribute.bgp-prefix-sid.sr-srgbs'],
            'two Originator SRGB TLVs in one Prefix-SID attribute: the key "sr-srgbs" twice',
            prefix_sid(_tlv12(3, b'\x00\x00' + b'\x00\x3e\x80' + b'\x00\x03\xe8') * 2),
        ),
        (
            'C13-prefix-sid-unknown-repeated',
            'corpus-render',
            ['json:update:duplicate-key:attribute.bgp-prefix-sid.attribute-not-implemented-N'],
            'two unregistered Prefix-SID TLVs of one type: the key "attribute-not-implemented-<type>" twice',
            prefix_sid(_tlv12(4, b'\x01') + _tlv12(4, b'\x02')),
        ),
        (
            'C13-tunnel-type-repeated',
            'corpus-render',
            ['json:update:duplicate-key:attribute.tunnel-encap.tunnel-type-N'],
            'two Tunnel Encapsulation TLVs of one unregistered tunnel type: the key "tunnel-type-<type>" twice in "tunnel-encap"',
            tunnel_encap(_tunnel(8, b'\x04\x04\x0a\x00\x00\x01') * 2),
        ),
        (
            'C13-sr-policy-tunnel-repeated',
            'corpus-render',
            ['json:update:duplicate-key:attribute.tunnel-encap.sr-policy'],
            'two SR Policy tunnel TLVs (type 15) in one Tunnel Encapsulation attribute: the key "sr-policy" twice',
            tunnel_encap(_tunnel(15, PREFERENCE) * 2),
        ),
    ]
    for name, subtlv in (
        ('preference', PREFERENCE),
        ('binding-sid', BSID),
        ('srv6-binding-sid', SRV6_BSID),
        ('priority', PRIORITY),
        ('policy-name', _sub(130, b'\x00name')),
        ('candidate-path-name', _sub(129, b'\x00name')),
        ('unknown-subtlv-N', _sub(99, b'\x01')),
    ):
        w.append(
            (
                f'C13-sr-policy-{name.lower().removesuffix("-n")}-repeated',
                'corpus-render',
                [f'json:update:duplicate-key:attribute.tunnel-encap.sr-policy.{name}'],
                f'two {name} sub-TLVs in one SR Policy tunnel TLV: the key twice in "sr-policy" (SRPolicyTunnel.json joins the members of every sub-TLV)',
                tunnel_encap(_tunnel(15, subtlv * 2)),
            )
        )
    w += [
        (
            'C13-aggregator-as4-aggregator',
            'corpus-render',
            ['json:update:duplicate-key:attribute.aggregator'],
            'AGGREGATOR (7) and AS4_AGGREGATOR (18) are both rendered under the key "aggregator" (AttributeCollection.representation): an UPDATE carrying both, '
            'which is what RFC 6793 has an OLD speaker relay, gives the key twice in "attribute"',
            {
                'type': 2,
                'body': build.update_body(
                    b'',
                    build.attribute(0x40, 1, b'\x00')
                    + build.attribute(0x40, 2, build.aspath([(2, [65001])], False))
                    + build.attribute(0x40, 3, build.ip('10.0.0.2'))
                    + build.attribute(0xC0, 7, struct.pack('!H', 23456) + build.ip('10.0.0.9'))
                    + build.attribute(0xC0, 18, struct.pack('!L', 70000) + build.ip('10.0.0.9')),
                    hostile.BASE_NLRI,
                ).hex(),
                'asn4': False,
                'addpath': False,
                'extnh': False,
                'seed': 'witness',
                'ops': ['witness'],
            },
        ),
        (
            'C13-bgpls-bandwidth-nan',
            'corpus-render',
            ['json:update:non-json-number:attribute.bgp-ls.*'],
            'BGP-LS bandwidth TLVs (1089 maximum, 1090 maximum reservable, 1091 unreserved) hold IEEE floats: NaN / Infinity are written as the bare words NaN / Infinity, which RFC 8259 parsers refuse',
            bgpls(struct.pack('!HH', 1089, 4) + b'\x7f\xc0\x00\x00'),
        ),
    ]
    return w


def variants() -> list:
    """the same root causes met through the sibling object (L2 service for L3 service, the other bandwidth TLVs): (finding id, engine, case)"""
    return [
        ('C13-srv6-sub-sub-tlv-unparseable', 'corpus-render', prefix_sid(_tlv12(6, b'\x00' + _tlv12(1, SID + _tlv12(7, b'\xab'))))),
        ('C13-srv6-sid-structure-repeated', 'corpus-render', prefix_sid(_tlv12(6, b'\x00' + _tlv12(1, SID + STRUCTURE + STRUCTURE)))),
        ('C13-prefix-sid-service-repeated', 'corpus-render', prefix_sid(_tlv12(6, b'\x00' + _tlv12(1, SID)) * 2)),
        ('C13-bgpls-bandwidth-nan', 'corpus-render', bgpls(struct.pack('!HH', 1090, 4) + b'\x7f\x80\x00\x00')),
        ('C13-bgpls-bandwidth-nan', 'corpus-render', bgpls(struct.pack('!HH', 1091, 32) + b'\xff\xc0\x00\x00' * 8)),
        ('C13-text-non-ascii-update', 'hostile-strings', {'kind': 'sr-policy', 'slots': [{'label': 'sr-policy-name', 'hex': 'c3a9', 'sub': 130}], 'shape': 'sr-policy-nlri'}),
        ('C13-text-non-ascii-open', 'hostile-strings', {'kind': 'open', 'slots': [{'label': 'software-version', 'hex': 'e6bca2'}], 'grouping': 'one', 'asn4': True, 'operational': False, 'gr': False}),
    ]


def fixed_witnesses() -> list:
    """met by this check while it was written and fixed in /repo since: kept as regression cases, they must pass"""
    return [
        (
            'C13-traffic-rate-nan',
            'corpus-render',
            ['all:update:render:ValueError@*traffic.py:__repr__'],
            "traffic-rate extended community (0x8006 / 0x800c) whose float is NaN: `'rate-limit:%d' % rate` raised ValueError, no encoder could render the UPDATE",
            'a63c7cc',
            ext_community(b'\x80\x06\x00\x00\x7f\xc0\x00\x00'),
        ),
        (
            'C13-traffic-rate-infinity',
            'corpus-render',
            ['all:update:render:OverflowError@*traffic.py:__repr__'],
            "traffic-rate extended community whose float is +/-Infinity: `'%d' % rate` raised OverflowError, no encoder could render the UPDATE",
            'a63c7cc',
            ext_community(b'\x80\x0c\x00\x00\x7f\x80\x00\x00'),
        ),
    ]


def cases_for(engine: str) -> list:
    return [case for _id, eng, _sigs, _what, case in witnesses() if eng == engine] + [v[2] for v in variants() if v[1] == engine] + [f[5] for f in fixed_witnesses() if f[1] == engine]


def entries() -> list:
    known = [{'id': i, 'property': 'C13', 'status': 'known', 'engine': e, 'signature': s[0], 'signatures': s, 'what': what, 'case': c} for i, e, s, what, c in witnesses()]
    fixed = [{'id': i, 'property': 'C13', 'status': 'fixed', 'commit': commit, 'engine': e, 'signature': s[0], 'signatures': s, 'what': what, 'case': c} for i, e, s, what, commit, c in fixed_witnesses()]
    return known + fixed


if __name__ == '__main__':
    if '--check' in sys.argv:
        import fnmatch

        from props import c13
        from vlib.runner import Violation

        by_id = {w[0]: w for w in witnesses()}
        todo = [(w[0], w[1], w[2], w[4]) for w in witnesses()] + [(f'{v[0]} (variant)', v[1], by_id[v[0]][2], v[2]) for v in variants()]
        for wid, engine, sigs, case in todo:
            eng = next(x for x in c13.ENGINES if x.name == engine)
            try:
                eng.check(case)
                print(f'{wid}: NO VIOLATION')
            except Violation as v:
                ok = any(fnmatch.fnmatchcase(v.signature, p) for p in sigs)
                print(f'{wid}: {"ok" if ok else "OTHER SIGNATURE"} {v.signature}')
    else:
        print(json.dumps(entries(), indent=1))
